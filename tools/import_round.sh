#!/bin/sh
# usage: import_round.sh <outdir with Cxx/a/{patch.diff,demo.sh,demo.c,README.md}> <letter> <round> <verify-log> <origin text>
# Copies each confirmed change (verify log line "Cxxa: apply=ok warnings=0 check=#PASS:11 demo_unchanged_rc=0 demo_mutated_rc=<non-zero>")
# into seeded/Cxx<letter>/ with a meta.json.
out="$1"; letter="$2"; round="$3"; vlog="$4"; origin="$5"
cd "$(dirname "$0")/.."
for d in "$out"/C*/a; do
  p=$(basename $(dirname $d)); line=$(grep "^${p}a:" "$vlog" | tail -1)
  echo "$line" | grep -q "apply=ok warnings=0 check=#PASS:11 demo_unchanged_rc=0 demo_mutated_rc=[1-9]" || { echo "$p: NOT confirmed ($line)"; continue; }
  dst=seeded/$p$letter; rm -rf $dst; mkdir -p $dst
  cp -a $d/patch.diff $d/demo.sh $d/README.md $dst/ 2>/dev/null; cp -a $d/*.c $d/*.h $d/*.py $dst/ 2>/dev/null
  rm -f $dst/demo
  python3 - "$p" "$letter" "$round" "$line" "$origin" <<'PY'
import json,sys,re,subprocess
p,letter,rnd,line,origin=sys.argv[1:6]
title=[json.loads(l)['title'] for l in open('properties.jsonl') if json.loads(l)['id']==p][0]
files=sorted(set(re.findall(r'^\+\+\+ b/(\S+)',open(f'seeded/{p}{letter}/patch.diff').read(),re.M)))
head=subprocess.check_output(['git','-C','/repo','rev-parse','--short','HEAD']).decode().strip()
json.dump({"id":p+letter,"property":p,"title":title,"round":int(rnd),"files_changed":files,"origin":origin,
 "needs_to_manifest":"see README.md (section on what it needs to manifest)",
 "confirmed_by":f"tools/verify_seeded.sh in a fresh scratch worktree of /repo HEAD ({head}): "+line.split(': ',1)[1],
 "how_to_run_checks":f"tools/try_seeded.sh seeded/{p}{letter}/patch.diff {p}"},open(f'seeded/{p}{letter}/meta.json','w'),indent=1)
PY
  echo "$p$letter imported"
done
