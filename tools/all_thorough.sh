#!/bin/sh
# run the thorough tier of every claimed check on the unchanged tree (no evidence written); summary lines only
cd "$(dirname "$0")/.."
ids=${*:-$(python3 -c "import json;print(' '.join(c['property_id'] for c in json.load(open('MANIFEST.json'))['checks']))")}
for p in $ids; do t0=$(date +%s); bin/check $p --tier thorough --no-evidence ${SEED:+--seed $SEED} 2>&1 | grep -E "VIOLATION|KNOWN|BROKEN|thorough:|tag=|NOTE"; echo "  ($p took $(( $(date +%s) - t0 )) s, exit status in the line above)"; done
