#!/bin/sh
# run every seeded change against the quick check of its property; one line per change in seeded/RESULTS.tsv
cd "$(dirname "$0")/.."
out=seeded/RESULTS.tsv
printf "change\tproperty\texit\tseconds\tfirst_tag\n" > $out
for d in seeded/C*; do
  id=$(basename $d); prop=$(echo $id | cut -c1-3)
  t0=$(date +%s)
  log=$(tools/try_seeded.sh $d/patch.diff $prop --scale ${SCALE:-0.5} 2>&1)
  rc=$(echo "$log" | grep -o "exit=[0-9]*" | tail -1 | cut -d= -f2)
  tag=$(echo "$log" | grep -m1 "tag=" | sed 's/.*tag=\([^ ]*\).*/\1/')
  t1=$(date +%s)
  printf "%s\t%s\t%s\t%s\t%s\n" $id $prop "$rc" $((t1-t0)) "$tag" >> $out
  echo "$id exit=$rc $((t1-t0))s $tag"
done
