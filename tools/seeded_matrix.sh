#!/bin/sh
# Run every seeded change against the quick check of its property; one line per change in seeded/RESULTS.tsv.
# With HARVEST=1 the shrunk replay of the first violation is kept as corpus/<prop>/kill-<change>.case (a regression input that
# every later run of the check replays first), provided it is a deterministic target's case and passes on the unchanged tree.
cd "$(dirname "$0")/.."
out=seeded/RESULTS.tsv
[ "${RESUME:-0}" = 1 ] && [ -f $out ] || printf "change\tproperty\texit\tseconds\tfirst_tag\n" > $out
# (a short shrink budget and one reported failure per campaign keep a full matrix within a few hours)
export VERIF_SHRINK_S=${VERIF_SHRINK_S:-12} VERIF_MAXFAIL=${VERIF_MAXFAIL:-1}
for d in seeded/C*; do
  id=$(basename $d); prop=$(echo $id | cut -c1-3)
  grep -q "^$id	" $out && continue
  chk=$prop
  t0=$(date +%s)
  log=$(tools/try_seeded.sh $d/patch.diff $chk --scale ${SCALE:-0.5} 2>&1)
  rc=$(echo "$log" | grep -o "exit=[0-9]*" | tail -1 | cut -d= -f2)
  tag=$(echo "$log" | grep -m1 "tag=" | sed 's/.*tag=\([^ ]*\).*/\1/')
  t1=$(date +%s)
  printf "%s\t%s\t%s\t%s\t%s\n" $id $prop "$rc" $((t1-t0)) "$tag" >> $out
  echo "$id exit=$rc $((t1-t0))s $tag"
  if [ "${HARVEST:-0}" = 1 ] && [ "$rc" = 1 ]; then
    rp=$(echo "$log" | grep -m1 "^VIOLATION property=" | sed 's/.* replay=//')
    if [ -f "$rp" ] && ! grep -q "^target=race" "$rp" && ! echo "$tag" | grep -q "^tsan"; then
      mkdir -p corpus/$prop
      grep -v "^helper=" "$rp" > corpus/$prop/kill-$id.case
      if ! bin/check $prop --replay corpus/$prop/kill-$id.case 2>&1 | grep -q "replay: no violation"; then echo "  (replay of $id does not pass on the unchanged tree: dropped)"; rm -f corpus/$prop/kill-$id.case; fi
    fi
  fi
done
