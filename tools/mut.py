#!/usr/bin/env python3
"""tools/mut.py <src-file> <old> <new> [--count N] -- <check args...>
Sensitivity helper: copy /repo sources to a scratch dir, replace the N-th (default: the only) occurrence of <old> by <new> in
src/<src-file>, run bin/check against the copy (VERIF_REPO), remove the copy.  Never touches /repo."""
import os, shutil, subprocess, sys, tempfile
a = sys.argv[1:]
i = a.index("--")
f, old, new = a[0], a[1], a[2]
nth = None
if "--count" in a[:i]:
    nth = int(a[a.index("--count") + 1])
d = tempfile.mkdtemp(prefix="mutrepo.", dir="/tmp")
try:
    os.makedirs(d + "/src")
    for fn in os.listdir("/repo/src"):
        if fn.endswith((".c", ".h")):
            shutil.copy("/repo/src/" + fn, d + "/src/" + fn)
    shutil.copytree("/repo/src/include", d + "/src/include")
    shutil.copy("/repo/config.h", d + "/config.h")
    p = d + "/src/" + f
    s = open(p).read()
    old = old.encode().decode("unicode_escape"); new = new.encode().decode("unicode_escape")
    n = s.count(old)
    if n == 0 or (n > 1 and nth is None):
        print("mutation site matches %d times" % n); sys.exit(9)
    if nth is None:
        s = s.replace(old, new)
    else:
        parts = s.split(old)
        s = old.join(parts[:nth]) + new + old.join(parts[nth:])
    open(p, "w").write(s)
    env = dict(os.environ, VERIF_REPO=d)
    r = subprocess.run(["/verif/bin/check"] + a[i + 1:] + ["--no-evidence"], env=env, cwd="/verif")
    print("exit=%d" % r.returncode)
    sys.exit(r.returncode)
finally:
    shutil.rmtree(d, ignore_errors=True)
