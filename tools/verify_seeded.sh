#!/bin/sh
# usage: verify_seeded.sh <seeded-dir> (contains patch.diff, demo.sh, demo.c ...)
# Confirms in a scratch worktree of /repo HEAD: (1) demo passes on the unchanged tree, (2) the patch applies, compiles without
# new warnings in src/ and `make check` still reports 11 PASS, (3) demo fails with the patch.  Prints one line; removes the worktree.
d="$1"; name=$(echo "$d" | sed 's#.*/\(C[0-9]*\)/\([ab]\)/*$#\1\2#')
wt=/tmp/vs-$name-$$
/verif/tools/mkwt.sh $wt >/dev/null 2>&1 || { echo "$name: worktree failed"; exit 1; }
work=$(mktemp -d /tmp/vsd.XXXXXX); cp -a "$d"/. $work/
( cd $work && WT=$wt timeout 300 sh ./demo.sh >$work/out.orig 2>&1 ); rc0=$?
if git -C $wt apply "$d/patch.diff" 2>/dev/null; then ap=ok; else ap=FAILED; fi
warn=$( (make -C $wt 2>&1 || echo BUILD-ERROR) | grep -c "warning:\|BUILD-ERROR\|error:")
chk=$(make -C $wt check 2>&1 | grep -E "^# PASS:" | tr -d ' ')
( cd $work && WT=$wt timeout 300 sh ./demo.sh >$work/out.mut 2>&1 ); rc1=$?
echo "$name: apply=$ap warnings=$warn check=$chk demo_unchanged_rc=$rc0 demo_mutated_rc=$rc1"
git -C /repo worktree remove --force $wt >/dev/null 2>&1; rm -rf $work
