#!/bin/sh
# usage: mkwt.sh <dir>  -- scratch git worktree of /repo HEAD with the (untracked) autotools
# output copied in, configured and built, so `make check` works there.
set -e
d="$1"
git -C /repo worktree add --detach "$d" HEAD >/dev/null 2>&1
cd /repo
for f in configure config.guess config.sub Makefile.in aclocal.m4 compile depcomp install-sh missing test-driver config.h.in ltmain.sh src/Makefile.in test/Makefile.in; do
  [ -e "$f" ] && cp -p "$f" "$d/$f"
done
for sub in contrib man3 misc test.mt; do
  (cd /repo && find $sub -name Makefile.in -o -name configure -o -name config.h.in -o -name aclocal.m4 -o -name ltmain.sh -o -name config.sub -o -name config.guess -o -name install-sh -o -name missing -o -name compile -o -name depcomp -o -name test-driver) | while read f; do mkdir -p "$d/$(dirname $f)"; cp -p "/repo/$f" "$d/$f"; done
done
cd "$d"
./configure -q >/dev/null 2>&1
make -j8 >/dev/null 2>&1
echo "worktree ready: $d"
