#!/bin/sh
# usage: try_seeded.sh <patch.diff> <check args...>
# Runs a check against a scratch copy of /repo (sources + generated headers) with the seeded change applied,
# so that /repo itself (and background runs using it) is not disturbed.  The copy is removed afterwards.
p="$1"; shift
d=$(mktemp -d /tmp/mutrepo.XXXXXX)
mkdir -p $d/src && cp -a /repo/src/*.[ch] $d/src/ && cp -a /repo/src/include $d/src/ && cp /repo/config.h $d/
patch -s -p1 -d $d < "$p" || { echo "patch does not apply"; rm -rf $d; exit 9; }
cd "$(dirname "$0")/.." && VERIF_REPO=$d bin/check "$@" --no-evidence; rc=$?
rm -rf $d
echo "exit=$rc"
exit $rc
