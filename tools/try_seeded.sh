#!/bin/sh
# usage: try_seeded.sh <patch.diff> <check args...>   -- apply a seeded change to /repo, run the check, undo
p="$1"; shift
git -C /repo apply "$p" || { echo "patch does not apply"; exit 9; }
cd /verif && bin/check "$@" --no-evidence; rc=$?
git -C /repo checkout -- .
echo "exit=$rc"
exit $rc
