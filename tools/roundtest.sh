#!/bin/sh
# usage: roundtest.sh <dir with Cxx/{a,b}/patch.diff> <log> [Cxx:v[:check] ...]   (default: every variant found)
# Runs the quick check (scale 0.5) of the property (or of <check>) against each change via try_seeded.sh; appends to <log>.
dir="$1"; log="$2"; shift 2
cd "$(dirname "$0")/.."
[ $# -eq 0 ] && set -- $(cd "$dir" && ls -d C*/[ab] | tr / :)
for s in "$@"; do
  p=${s%%:*}; r=${s#*:}; v=${r%%:*}; chk=${r#*:}; [ "$chk" = "$r" ] && chk=$p
  echo "=== $p/$v with $chk" >> "$log"
  timeout 1800 tools/try_seeded.sh "$dir/$p/$v/patch.diff" $chk --scale ${SCALE:-0.5} 2>&1 | grep -E "tag=|quick:|exit=|apply" | head -4 | cut -c1-220 >> "$log"
done
