#!/bin/sh
# run every claimed check (quick tier) on the unchanged tree for the given seeds; print only summary lines
cd "$(dirname "$0")/.."
seeds="${*:-1}"
ids=$(python3 -c "import json;print(' '.join(c['property_id'] for c in json.load(open('MANIFEST.json'))['checks']))")
for s in $seeds; do for p in $ids; do VERIF_SEED=$s bin/check $p --no-evidence 2>&1 | grep -E "VIOLATION|KNOWN|BROKEN|quick:|tag=" ; done; done
