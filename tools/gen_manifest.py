#!/usr/bin/env python3
"""Regenerate /verif/MANIFEST.json from bin/props.py (claimed checks) + the not_applicable list below."""
import json, os, sys
sys.path.insert(0, os.path.join(os.path.dirname(os.path.abspath(__file__)), "..", "bin"))
import props
V = os.path.join(os.path.dirname(os.path.abspath(__file__)), "..")
allp = [json.loads(l) for l in open(os.path.join(V, "properties.jsonl"))]
NA_REASON = "check for this property is still under construction in this session (DESIGN.md section 8 lists the order); it will be claimed once its quick tier has been validated on the unchanged tree"
checks = []
for p in allp:
    pid = p["id"]
    sp = props.PROPS.get(pid)
    if not sp or sp.get("unclaimed"):
        continue
    checks.append(dict(property_id=pid, quick_cmd="bin/check %s --tier quick" % pid, thorough_cmd="bin/check %s --tier thorough" % pid,
                       evidence_file="evidence/%s.json" % pid, replay_cmd_template="bin/check %s --replay {path}" % pid,
                       engine=sp.get("engine") or (sp["campaigns"][0][0] if not isinstance(sp["campaigns"][0], dict) else sp["campaigns"][0]["target"]),
                       level_claimed=dict(category=sp["level"], text=sp["level_text"], design_ref=sp.get("design_ref", "DESIGN.md section 3, " + pid)),
                       level_note=sp["level_note"], technique=sp["technique"]))
m = dict(version=1, setup_cmd="bin/setup",
         hooks=dict(guard="IVYKIS_VERIF", enable="no source hooks: checks compile /repo/src/*.c directly (clang, ASan+UBSan or TSan, -DIVYKIS_VERIF) and interpose libc/syscalls at link time with -Wl,--wrap; the guard is defined but no source line tests it",
                    baseline_off_cmd="make -C /repo check", source_commits=[], add_only=True),
         engines=props.ENGINES, checks=checks,
         not_applicable=[dict(property_id=p["id"], reason=props.NOT_APPLICABLE.get(p["id"], NA_REASON)) for p in allp if p["id"] not in [c["property_id"] for c in checks]],
         notes="Property-based testing / fuzzing of the real library under sanitizers; see DESIGN.md. Genuine defects found and repaired are listed in known_findings.json (all 'fixed').")
json.dump(m, open(os.path.join(V, "MANIFEST.json"), "w"), indent=1)
print("claimed:", [c["property_id"] for c in checks])
