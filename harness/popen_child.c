/* helper exec'ed by the real-child mode of t_popen: reports its pid and the wiring of fds 0/1/2, moves
 * the data, and reports every SIGTERM it receives over the side pipe */
#include <signal.h>
#include <stdio.h>
#include <stdlib.h>
#include <string.h>
#include <unistd.h>
#include <sys/stat.h>
#include <sys/sysmacros.h>
static int side, die_on_term;
static int isnull(int fd) { struct stat sb; return fstat(fd, &sb) == 0 && S_ISCHR(sb.st_mode) && major(sb.st_rdev) == 1 && minor(sb.st_rdev) == 3; }
static void on_term(int s) { (void)s; if (die_on_term) _exit(0); if (write(side, "S", 1) != 1) _exit(3); }
int main(int argc, char **argv)
{
	if (argc < 4) return 2;
	side = atoi(argv[2]); die_on_term = atoi(argv[3]);
	signal(SIGTERM, on_term);
	char rep[64]; int n = snprintf(rep, sizeof rep, "P %d %d %d %d\n", (int)getpid(), isnull(0), isnull(1), isnull(2));
	if (write(side, rep, n) != n) return 3;
	if (argv[1][0] == 'r') { if (write(1, "hello-popen", 11) != 11) return 4; }
	else { char b[16]; size_t m = 0; while (m < 11) { ssize_t k = read(0, b + m, 11 - m); if (k <= 0) break; m += k; } if (m == 11 && !memcmp(b, "ping-popen\n", 11)) { if (write(side, "D", 1) != 1) return 5; } }
	for (;;) pause();
}
