/*
 * t_loop -- engine A: single-threaded loop programs over fds, timers, tasks, events and raw
 * events, run against the real library under the virtual kernel (vk).  Serves C01-C04, C06,
 * C07 (and, through parameters, the single-threaded parts of C09, C15, C18).
 *
 * All decisions are drawn online from the choice stream, see DESIGN.md 1.1 / 2.2.
 */
#ifndef _GNU_SOURCE
#define _GNU_SOURCE
#endif
#include "vfz.h"
#include "vk.h"
#include <errno.h>
#include <fcntl.h>
#include <signal.h>
#include <stdio.h>
#include <stdlib.h>
#include <string.h>
#include <unistd.h>
#include <sys/socket.h>
#include <sys/ioctl.h>
#include <sys/wait.h>
#include <iv.h>
#include <iv_event.h>
#include <iv_event_raw.h>

const char *target_name = "loop";

/* ------------------------------------------------------------------ labels */
enum {
	L_UNREG_DUE_VICTIM, L_UNREG_SELF, L_SET_ON_READY, L_AROSE_BLOCKED, L_READY_THEN_NOT, L_REUSE_READY,
	L_TFD_ARMED, L_TFD_REARM, L_PAST_EXPIRY, L_REARM_HANDLER, L_TASK_REREG_BUSY, L_ZERO_DL_TFD,
	L_QUIT, L_FAILED_REG, L_ZERO_VIA_CB, L_ENDED_BLOCKED, L_EINTR, L_SECOND_ROUND, L_EVENT, L_RAW,
	L_MULTI_DUE, L_CLEANUP, L_PWAIT2_FALLBACK, L_TASK_SELF_REREG, L_HANDLERLESS_FD, L_EQUAL_EXPIRY,
	L_UNREG_TIMER_PENDING, L_LEVEL_REPEAT, L_M0, L_M1, L_M2, L_M3, L_FREE_IN_HANDLER, L_EV_FAIL,
	L_RAW_IN_HANDLER_POST, L_FAR_TIMER, L_TFD_FALLBACK, L_PPOLL_FALLBACK,
	L_RAW_BIG_BURST, L_RAW_SIGNAL_POST, L_RAW_CHILD_POST, L_RAW_PIPE, L_RAW_OLD_EVENTFD, L_RAW_1024_MULTIPLE,
	L_FAULT_HIT, L_METHOD_SWITCHED, L_SAME_STRUCT, L_QUIT_RERUN,
};

/* ------------------------------------------------------------------ configuration */
enum { KIND_FD, KIND_TIMER, KIND_TASK, KIND_EVENT, KIND_RAW, NKIND };
static const char *kind_name[NKIND] = { "fd", "timer", "task", "event", "raw" };
#define MAXFD 24
#define MAXTIMER 48
#define MAXTASK 6
#define MAXEV 4
#define MAXRAW 3

static int cfg_method, cfg_alloc_reuse, cfg_clk_pct, cfg_eintr_pct, cfg_pwait2_err;
static int64_t cfg_cb_cost;   /* virtual time every callback takes (too little to oblige iv_invalidate_now) */
static int64_t prev_wait_end = -1, last_wait_end = -1;   /* virtual time when the previous / latest wait call ended */
static int64_t entry_reading;  /* the thread's last clock reading when the current wait was entered */
static int cfg_nfd, cfg_ntimer, cfg_ntask, cfg_nev, cfg_nraw;
static long budget;
static int profile;      /* 0 all, 1 fd, 2 timer, 3 task, 4 lifecycle(C07), 5 raw events (C09) */
static int eperm_active;
static long cfg_eperm_from = -1;  /* eventfd2() is refused with EPERM from its k-th call on (a sandbox clamping down in mid-run) */
static int cfg_eventfd_mode;   /* 0 eventfd2, 1 old eventfd (eventfd2 -> EINVAL), 2 pipe (both -> ENOSYS) */
static int known_handlerless_excluded, known_evfail_excluded;
static long forced_eintr_prim = -1, forced_eintr_k = -1;
static int forced_fault_sys = -1, forced_fault_errno, forced_fault_from = 0, forced_fault_count = 1 << 30;
static struct { int sys, err; long from, count; } faults[6]; static int nfaults;   /* param faults=sys:errno:from:count,... */
static long eintr_at = -1, loop_waits_seen;   /* param eintr_at=k: the k-th wait call of the loop (any primitive) is interrupted */
static int expect_fatal, forced_eintr_now;
/* confluent mode (C15 differential): every callback acts only on its own object, driven by a choice block derived from
 * (case, object, invocation number), so that the per-object outcome does not depend on the dispatch order */
static int confluent; static uint64_t conf_seed; static unsigned conf_inv[NKIND][MAXTIMER]; static int conf_budget[NKIND][MAXTIMER]; static unsigned conf_block_no;
static long summary_cnt[NKIND][MAXTIMER][3];
static uint8_t conf_block[48];
static void conf_seat(unsigned a, unsigned b, unsigned c)
{
	struct vz_rng r; rng_seed(&r, conf_seed ^ ((uint64_t)a << 40) ^ ((uint64_t)b << 20), c);
	for (unsigned i = 0; i < sizeof conf_block; i++) conf_block[i] = (uint8_t)rng_next(&r);
	ch_init(conf_block, sizeof conf_block);
}

/* ------------------------------------------------------------------ shadow model */
struct cell { int kind, id; unsigned gen; int live; int superseded; };

struct fdo {
	int ch_kind;               /* 0 pipe-rd, 1 pipe-wr, 2 socketpair */
	int fd, peer; int peer_open;
	struct iv_fd *iv; int registered; struct cell *cell; int valid;   /* valid: struct went through its INIT macro and was not scribbled over since */
	int var[3];                /* installed variant per band (0 = NULL) */
	unsigned long called_iter[3];
	int gt[3]; int gt_valid;   /* ground truth at the last real poll since registration */
	int streak[3];
	int touched;
	int was_ready[3];          /* for L_READY_THEN_NOT */
	int ncalls[3];
};
struct tmo {
	struct iv_timer *iv; int registered; struct cell *cell; int valid;
	int64_t expires; int due_seen; unsigned long reg_iter; int reg_in_timer_round;
};
struct tko {
	struct iv_task *iv; int registered; struct cell *cell;
	unsigned long last_run_poll; int ran_ever; int reruns_this_poll;
};
struct evo {
	struct iv_event *iv; int registered; struct cell *cell; int valid;
	int posts_outstanding; long nposts, ncalls;
};
struct rwo {
	struct iv_event_raw *iv; int registered; struct cell *cell; int valid; int nfds;
	int posts_outstanding;
};
static struct fdo fdos[MAXFD];
static struct tmo tmos[MAXTIMER];
static struct tko tkos[MAXTASK];
static struct evo evos[MAXEV];
static struct rwo rwos[MAXRAW];

static int quit_called, in_main, depth, rounds;
static unsigned long iter;          /* number of wait calls entered so far */
static unsigned long poll_seq;      /* number of real (non-faulted) polls completed */
static unsigned long poll_calls;    /* number of kernel wait calls made by the loop, interrupted ones included */
static long callbacks_total, callbacks_this_iter, cbs_since_wait_return;
static int zero_progress;           /* consecutive empty zero-time wait returns without callback */
static int in_timer_dispatch;
static int tfd_was_armed;
static int cur_kind = -1, cur_id = -1;   /* running callback's object */
static int blocked_env_event;       /* an env event was performed in the current wait */
static int task_pending_iters;
static int idle_waits;
static long callbacks_this_iter_tasks;

static int n_registered(void)
{
	int n = 0;
	for (int i = 0; i < cfg_nfd; i++) n += fdos[i].registered;
	for (int i = 0; i < cfg_ntimer; i++) n += tmos[i].registered;
	for (int i = 0; i < cfg_ntask; i++) n += tkos[i].registered;
	for (int i = 0; i < cfg_nev; i++) n += evos[i].registered;
	for (int i = 0; i < cfg_nraw; i++) n += rwos[i].registered;
	return n;
}

/* what freshly allocated / released object memory looks like: not always the same pattern, and sometimes small values that
 * could pass for valid field contents (band masks, flags, list state) */
static int fill_byte(void) { static const unsigned char pats[] = { 0xA5, 0xA5, 0x00, 0xFF, 0x01, 0x02, 0x03, 0x04, 0x05, 0x06, 0x07, 0x5A }; return pats[ch_n(sizeof pats)]; }
/* "Before an object is registered it must have been initialised by IV_*_INIT": once is enough, so callers commonly keep an
 * unregistered (or fired) struct as it is and register it again later.  same_struct(): do that now? */
static int same_struct(void *iv, int valid) { return cfg_alloc_reuse && iv && valid && ch_n(2); }
static int keep_struct(void) { return ch_n(3) == 0; }
static struct cell *new_cell(int kind, int id)
{
	static unsigned gen;
	struct cell *c = malloc(sizeof *c);   /* never freed: must stay valid for stale callbacks */
	c->kind = kind; c->id = id; c->gen = ++gen; c->live = 1; c->superseded = 0;
	return c;
}

#define FAILP(prop, tag, ...) vz_fail(prop, tag, __VA_ARGS__)
/* a violation of the running property regardless of which one it is (hang, crash-like) */
static void fail_any(const char *tag, const char *fmt, ...)
{
	char msg[512]; va_list ap; va_start(ap, fmt); vsnprintf(msg, sizeof msg, fmt, ap); va_end(ap);
	char p[8]; strncpy(p, vz_prop, 3); p[3] = 0;
	vz_fail(p, tag, "%s", msg);
}

static void fatal_handler(const char *msg)
{
	if (expect_fatal && strstr(msg, "suitable event dispatcher")) { vz_log("iv_fatal as expected: %s", msg); vz_nontrivial(); vz_finish(); }
	char tag[64] = "fatal."; int n = 6;
	for (const char *p = msg; *p && *p != ':' && n < 60; p++) tag[n++] = (*p == ' ') ? '_' : *p;
	tag[n] = 0;
	vz_log("iv_fatal: %s", msg);
	fail_any(tag, "iv_fatal: %s", msg);
	_exit(3);
}

/* ------------------------------------------------------------------ ground truth */
static void gt_one(struct fdo *f, int g[3])
{
	struct pollfd p = { f->fd, POLLIN | POLLOUT, 0 };
	__real_poll(&p, 1, 0);
	int hup = p.revents & (POLLHUP | POLLERR);
	g[0] = !!((p.revents & POLLIN) || hup);
	g[1] = !!((p.revents & POLLOUT) || hup);
	g[2] = !!hup;
}
static void snapshot(void)
{
	for (int i = 0; i < cfg_nfd; i++) {
		struct fdo *f = &fdos[i];
		if (!f->registered) continue;
		gt_one(f, f->gt);
		f->gt_valid = 1;
	}
}
static int any_due(char *buf, size_t n)
{
	for (int i = 0; i < cfg_nfd; i++) {
		struct fdo *f = &fdos[i];
		if (!f->registered) continue;
		int g[3]; gt_one(f, g);
		for (int b = 0; b < 3; b++)
			if (f->var[b] && g[b]) { if (buf) snprintf(buf, n, "fd%d band%d", i, b); return 1; }
	}
	return 0;
}

/* ------------------------------------------------------------------ forward decls */
static void run_actions(int ctx_kind, int ctx_id, int nmax);
static void unregister_everything(void);
static void fd_in1(void *), fd_in2(void *), fd_out1(void *), fd_out2(void *), fd_err1(void *), fd_err2(void *);
static void (*const fd_fn[3][3])(void *) = { { NULL, fd_in1, fd_in2 }, { NULL, fd_out1, fd_out2 }, { NULL, fd_err1, fd_err2 } };
static void timer_cb(void *), task_cb(void *), event_cb(void *), raw_cb(void *);

/* ------------------------------------------------------------------ callback prologue */
/* the iv_*_registered() queries as seen from inside a callback: they must agree with what was registered and unregistered so far
 * for every object other than the one whose callback is starting (a due timer whose handler has not run yet is still registered:
 * `if (iv_timer_registered(&t)) iv_timer_unregister(&t);` is how another handler cancels it) */
static void check_registered_queries(int kind, int id)
{
	for (int j = 0; j < cfg_ntimer; j++) {
		struct tmo *t = &tmos[j];
		if ((kind == KIND_TIMER && j == id) || !t->iv || !t->valid) continue;
		int r = !!iv_timer_registered(t->iv);
		if (r != !!t->registered) { FAILP("C04", "registered-query", "iv_timer_registered(timer%d) = %d inside a %s callback, but the timer %s", j, r, kind_name[kind], t->registered ? "is registered and has not fired" : "is not registered");
					    FAILP("C01", "registered-query", "iv_timer_registered(timer%d) = %d, but the timer %s", j, r, t->registered ? "is registered and has not fired" : "is not registered"); }
	}
	for (int j = 0; j < cfg_ntask; j++) {
		struct tko *t = &tkos[j];
		if ((kind == KIND_TASK && j == id) || !t->iv) continue;
		int r = !!iv_task_registered(t->iv);
		if (r != !!t->registered) FAILP("C06", "registered-query", "iv_task_registered(task%d) = %d inside a %s callback, but the task %s", j, r, kind_name[kind], t->registered ? "is registered and has not run" : "is not registered");
	}
	for (int j = 0; j < cfg_nfd; j++) {
		struct fdo *f = &fdos[j];
		if (!f->iv || !f->valid) continue;
		int r = !!iv_fd_registered(f->iv);
		if (r != !!f->registered) { FAILP("C03", "registered-query", "iv_fd_registered(fd%d) = %d, but the descriptor %s", j, r, f->registered ? "is registered" : "is not registered");
					    FAILP("C02", "registered-query", "iv_fd_registered(fd%d) = %d, but the descriptor %s", j, r, f->registered ? "is registered" : "is not registered"); }
	}
}
static void cb_enter(struct cell *c, int kind)
{
	if (!in_main) FAILP("C07", "callback-outside-main", "%s callback outside iv_main", kind_name[kind]);
	if (depth != 0) FAILP("C07", "nested-callback", "%s callback nested at depth %d", kind_name[kind], depth);
	depth++;
	callbacks_total++; callbacks_this_iter++; cbs_since_wait_return++;
	zero_progress = 0;
	if (callbacks_this_iter == 3) vz_label(L_MULTI_DUE);
	if (c->kind != kind) fail_any("cookie-kind-mismatch", "callback kind %s got cookie of kind %s", kind_name[kind], kind_name[c->kind]);
	cur_kind = kind; cur_id = c->id;
	check_registered_queries(kind, c->id);
	budget--;
	if (cfg_cb_cost) vk_advance(cfg_cb_cost);
}
static void cb_leave(void)
{
	depth--; cur_kind = -1; cur_id = -1;
}

/* ------------------------------------------------------------------ fd operations */
static void fd_do_register(int i, int try_variant)
{
	struct fdo *f = &fdos[i];
	int same = same_struct(f->iv, f->valid);
	if (!same) {
		if (!cfg_alloc_reuse || !f->iv) f->iv = malloc(sizeof *f->iv);
		memset(f->iv, fill_byte(), sizeof *f->iv);
		IV_FD_INIT(f->iv);
		f->valid = 1;
	} else { vz_label(L_SAME_STRUCT); vz_log("  (fd%d: same struct as before, not initialised again)", i); }
	f->cell = new_cell(KIND_FD, i);
	f->iv->fd = f->fd; f->iv->cookie = f->cell;
	for (int b = 0; b < 3; b++) f->var[b] = ch_n(3);
	if (known_handlerless_excluded && !f->var[0] && !f->var[1] && !f->var[2]) { f->var[0] = 1; vz_count(8, 1); }
	if (!f->var[0] && !f->var[1] && !f->var[2]) vz_label(L_HANDLERLESS_FD);
	f->iv->handler_in = fd_fn[0][f->var[0]]; f->iv->handler_out = fd_fn[1][f->var[1]]; f->iv->handler_err = fd_fn[2][f->var[2]];
	int g[3]; gt_one(f, g);
	vz_log("  fd%d register%s fd=%d handlers=%d%d%d (kernel state in=%d out=%d err=%d)", i, try_variant ? "_try" : "", f->fd, f->var[0], f->var[1], f->var[2], g[0], g[1], g[2]);
	vz_hash_u(0x100 + i * 27 + f->var[0] * 9 + f->var[1] * 3 + f->var[2] + try_variant * 1000);
	if (try_variant) {
		int r = iv_fd_register_try(f->iv);
		if (r) fail_any("register_try-failed-on-good-fd", "iv_fd_register_try returned %d for a valid descriptor", r);
	} else iv_fd_register(f->iv);
	f->registered = 1; f->gt_valid = 0; f->touched = 1;
	for (int b = 0; b < 3; b++) { f->streak[b] = 0; f->called_iter[b] = (unsigned long)-1; f->was_ready[b] = 0; }
	if (f->var[0] && g[0]) vz_label(L_SET_ON_READY);
	if (!iv_fd_registered(f->iv)) fail_any("fd-registered-false", "iv_fd_registered()==0 right after registration");
	int fl = fcntl(f->fd, F_GETFL), fdfl = fcntl(f->fd, F_GETFD);
	if (!(fl & O_NONBLOCK) || !(fdfl & FD_CLOEXEC)) FAILP("C18", "fd-flags", "fd%d after register: O_NONBLOCK=%d FD_CLOEXEC=%d", i, !!(fl & O_NONBLOCK), !!(fdfl & FD_CLOEXEC));
}
static void fd_do_unregister(int i)
{
	struct fdo *f = &fdos[i];
	int victim_due = 0;
	if (depth > 0) {
		if (cur_kind == KIND_FD && cur_id == i) vz_label(L_UNREG_SELF);
		for (int b = 0; b < 3; b++)
			if (f->gt_valid && f->gt[b] && f->var[b] && f->called_iter[b] != iter) victim_due = 1;
		if (victim_due && !(cur_kind == KIND_FD && cur_id == i)) vz_label(L_UNREG_DUE_VICTIM);
	}
	vz_log("  fd%d unregister%s", i, victim_due ? " (was due, not yet dispatched)" : "");
	vz_hash_u(0x200 + i);
	iv_fd_unregister(f->iv);
	f->registered = 0; f->cell->live = 0; f->gt_valid = 0; f->touched = 1;
	if (iv_fd_registered(f->iv)) fail_any("fd-registered-true", "iv_fd_registered()!=0 after unregister");
	if (!cfg_alloc_reuse) { memset(f->iv, 0x5A, sizeof *f->iv); free(f->iv); f->iv = NULL; }
	else {
		int g[3]; gt_one(f, g);
		if (g[0] || g[1]) vz_label(L_REUSE_READY);
		if (keep_struct()) vz_log("  (struct kept)");
		else { memset(f->iv, 0x5A, sizeof *f->iv); f->valid = 0; }   /* caller may reuse the memory at once */
	}
}
static void fd_do_set(int i, int band, int v)
{
	struct fdo *f = &fdos[i];
	int g[3]; gt_one(f, g);
	if (!f->var[band] && v && g[band]) vz_label(L_SET_ON_READY);
	vz_log("  fd%d set_handler band%d %d->%d (kernel state %d)", i, band, f->var[band], v, g[band]);
	vz_hash_u(0x300 + i * 9 + band * 3 + v);
	f->var[band] = v; f->touched = 1; f->streak[band] = 0;
	switch (band) {
	case 0: iv_fd_set_handler_in(f->iv, fd_fn[0][v]); break;
	case 1: iv_fd_set_handler_out(f->iv, fd_fn[1][v]); break;
	default: iv_fd_set_handler_err(f->iv, fd_fn[2][v]); break;
	}
}
static void fd_do_cookie(int i)
{
	struct fdo *f = &fdos[i];
	f->cell->superseded = 1; f->cell->live = 0;
	f->cell = new_cell(KIND_FD, i);
	f->iv->cookie = f->cell;
	vz_log("  fd%d cookie changed", i); vz_hash_u(0x400 + i);
}
static void chan_io(int i, int op)
{
	struct fdo *f = &fdos[i];
	char buf[4096]; memset(buf, 'x', sizeof buf);
	ssize_t r = 0;
	switch (op) {
	case 0: /* peer write */
		if (!f->peer_open || f->ch_kind == 1) return;
		r = send(f->peer, buf, 1 + ch_n(64), MSG_DONTWAIT | MSG_NOSIGNAL);
		if (r < 0 && errno == ENOTSOCK) { int fl = fcntl(f->peer, F_GETFL); fcntl(f->peer, F_SETFL, fl | O_NONBLOCK); r = write(f->peer, buf, 1 + ch_n(64)); fcntl(f->peer, F_SETFL, fl); }
		vz_log("  fd%d peer writes -> %zd", i, r); break;
	case 1: /* peer read (drain) */
		if (!f->peer_open || f->ch_kind == 0) return;
		{ int fl = fcntl(f->peer, F_GETFL); fcntl(f->peer, F_SETFL, fl | O_NONBLOCK); long tot = 0; int all = ch_n(2);
		  do { r = read(f->peer, buf, sizeof buf); if (r > 0) tot += r; } while (r > 0 && all);
		  fcntl(f->peer, F_SETFL, fl); vz_log("  fd%d peer reads %ld", i, tot); }
		break;
	case 2: /* peer close */
		if (!f->peer_open) return;
		close(f->peer); f->peer_open = 0; vz_log("  fd%d peer closes", i); break;
	case 3: /* self read (consume) */
		if (f->ch_kind == 1) return;
		{ int fl = fcntl(f->fd, F_GETFL); fcntl(f->fd, F_SETFL, fl | O_NONBLOCK); long tot = 0; int all = ch_n(2);
		  do { r = read(f->fd, buf, sizeof buf); if (r > 0) tot += r; } while (r > 0 && all);
		  fcntl(f->fd, F_SETFL, fl); vz_log("  fd%d self reads %ld", i, tot); }
		break;
	case 4: /* self fill (make non-writable) */
		if (f->ch_kind == 0) return;
		{ int fl = fcntl(f->fd, F_GETFL); fcntl(f->fd, F_SETFL, fl | O_NONBLOCK); long tot = 0;
		  signal(SIGPIPE, SIG_IGN);
		  do { r = write(f->fd, buf, sizeof buf); if (r > 0) tot += r; } while (r > 0);
		  fcntl(f->fd, F_SETFL, fl); vz_log("  fd%d self fills %ld", i, tot); }
		break;
	}
	vz_hash_u(0x500 + i * 8 + op);
	f->touched = 1;
	for (int b = 0; b < 3; b++) f->streak[b] = 0;
}

/* ------------------------------------------------------------------ fd callbacks */
static void fd_cb(void *cookie, int band, int variant)
{
	struct cell *c = cookie;
	cb_enter(c, KIND_FD);
	struct fdo *f = &fdos[c->id];
	vz_log("iter %lu: fd%d band%d handler v%d", iter, c->id, band, variant);
	if (c->superseded) FAILP("C03", "stale-cookie", "fd%d band%d called with a cookie that was replaced", c->id, band);
	if (!c->live || !f->registered)
		{ FAILP("C01", "callback-after-unregister", "fd%d band%d handler ran after iv_fd_unregister returned (gen %u)", c->id, band, c->gen);
		  FAILP("C03", "callback-unregistered", "fd%d band%d handler ran while not registered", c->id, band);
		  fail_any("callback-after-unregister", "fd%d band%d handler ran after unregister", c->id, band); }
	if (c != f->cell) FAILP("C03", "wrong-cookie", "fd%d band%d: cookie of another registration", c->id, band);
	if (f->var[band] != variant) {
		if (f->var[band] == 0) FAILP("C03", "cleared-handler-called", "fd%d band%d: handler v%d called but handler is NULL now", c->id, band, variant);
		FAILP("C03", "wrong-handler", "fd%d band%d: v%d called, v%d installed", c->id, band, variant, f->var[band]);
		FAILP("C01", "stale-handler", "fd%d band%d: v%d called, v%d installed", c->id, band, variant, f->var[band]);
	}
	if (!f->gt_valid) FAILP("C03", "never-polled", "fd%d band%d called but no kernel poll happened since it was registered", c->id, band);
	else if (!f->gt[band]) FAILP("C03", "not-ready-at-poll", "fd%d band%d called, but the condition did not hold at the preceding poll", c->id, band);
	if (f->called_iter[band] == iter) FAILP("C03", "twice-per-iteration", "fd%d band%d called twice in iteration %lu", c->id, band, iter);
	if (f->called_iter[band] + 1 == iter && f->ncalls[band]) vz_label(L_LEVEL_REPEAT);
	f->called_iter[band] = iter; f->streak[band] = 0; f->ncalls[band]++; summary_cnt[KIND_FD][c->id][band]++;
	if (blocked_env_event) vz_label(L_AROSE_BLOCKED);
	if (budget <= 0) unregister_everything();
	else run_actions(KIND_FD, c->id, 3);
	cb_leave();
}
static void fd_in1(void *c) { fd_cb(c, 0, 1); }
static void fd_in2(void *c) { fd_cb(c, 0, 2); }
static void fd_out1(void *c) { fd_cb(c, 1, 1); }
static void fd_out2(void *c) { fd_cb(c, 1, 2); }
static void fd_err1(void *c) { fd_cb(c, 2, 1); }
static void fd_err2(void *c) { fd_cb(c, 2, 2); }

/* ------------------------------------------------------------------ timers */
static int64_t draw_expiry(void)
{
	int64_t now = vk_now();
	switch (ch_n(10)) {
	case 0: vz_label(L_PAST_EXPIRY); return now - 1 - (int64_t)ch_n(200) * 10000000ll;
	case 1: vz_label(L_PAST_EXPIRY); return now;
	case 2: vz_label(L_PAST_EXPIRY); return 0;
	case 3: /* equal to another registered timer */
		for (int i = 0; i < cfg_ntimer; i++) if (tmos[i].registered) { vz_label(L_EQUAL_EXPIRY); return tmos[i].expires; }
		return now + 1000;
	case 4: return now + 1 + ch_n(250) * 3999;                 /* sub-millisecond */
	case 5: return now + 1000000ll * (1 + ch_n(50)) + ch_n(250) * 3999; /* ms with fraction */
	case 6: return now + 1000000ll * (1 + ch_n(50));
	case 7: return now + VK_NS * (1 + ch_n(20));
	case 8: vz_label(L_FAR_TIMER); return now + VK_NS * 86400ll * (1 + ch_n(5)) + ch_n(3) * 500000;
	default: return now + 1000000ll * ch_n(4);
	}
}
static void timer_do_register(int i)
{
	struct tmo *t = &tmos[i];
	int same = same_struct(t->iv, t->valid);
	if (!same) {
		if (!cfg_alloc_reuse || !t->iv) t->iv = malloc(sizeof *t->iv);
		memset(t->iv, fill_byte(), sizeof *t->iv);
		IV_TIMER_INIT(t->iv);
		t->valid = 1;
	} else { vz_label(L_SAME_STRUCT); vz_log("  (timer%d: same struct as before, not initialised again)", i); }
	t->cell = new_cell(KIND_TIMER, i);
	t->expires = draw_expiry();
	t->iv->expires = vk_ns_ts(t->expires); t->iv->cookie = t->cell; t->iv->handler = timer_cb;
	vz_log("  timer%d register expires=now%+lld ns", i, (long long)(t->expires - vk_now()));
	vz_hash_u(0x600 + i); vz_hash_u((uint64_t)(t->expires - vk_now()));
	iv_timer_register(t->iv);
	t->registered = 1; t->due_seen = 0; t->reg_iter = iter;
	if (cur_kind == KIND_TIMER) vz_label(L_REARM_HANDLER);
	if (!iv_timer_registered(t->iv)) fail_any("timer-registered-false", "iv_timer_registered()==0 after register");
}
static void timer_do_unregister(int i)
{
	struct tmo *t = &tmos[i];
	int due = t->expires <= vk_last_reading();
	if (depth > 0 && due) { vz_label(L_UNREG_DUE_VICTIM); vz_label(L_UNREG_TIMER_PENDING); }
	vz_log("  timer%d unregister%s", i, due ? " (was due)" : "");
	vz_hash_u(0x700 + i);
	iv_timer_unregister(t->iv);
	t->registered = 0; t->cell->live = 0;
	if (iv_timer_registered(t->iv)) fail_any("timer-registered-true", "iv_timer_registered()!=0 after unregister");
	if (!cfg_alloc_reuse) { memset(t->iv, 0x5A, sizeof *t->iv); free(t->iv); t->iv = NULL; }
	else if (!keep_struct()) { memset(t->iv, 0x5A, sizeof *t->iv); t->valid = 0; }
}
static void timer_cb(void *cookie)
{
	struct cell *c = cookie;
	cb_enter(c, KIND_TIMER);
	struct tmo *t = &tmos[c->id];
	vz_log("iter %lu: timer%d handler (clock=%lld expires=%lld)", iter, c->id, (long long)vk_last_reading(), (long long)t->expires);
	if (!c->live || c != t->cell || !t->registered) {
		FAILP("C04", "fired-not-registered", "timer%d handler ran although it is not registered (fired twice or after unregister)", c->id);
		FAILP("C01", "callback-after-unregister", "timer%d handler ran after unregister/expiry (gen %u)", c->id, c->gen);
		fail_any("timer-callback-not-registered", "timer%d handler ran although not registered", c->id);
	}
	if (iv_timer_registered(t->iv)) { FAILP("C04", "registered-on-entry", "timer%d still registered on handler entry", c->id); FAILP("C01", "timer-registered-on-entry", "timer%d still registered on handler entry", c->id); }
	if (vk_last_reading() < t->expires) FAILP("C04", "early", "timer%d fired at clock %lld, %lld ns before its expiry", c->id, (long long)vk_last_reading(), (long long)(t->expires - vk_last_reading()));
	/* C05-style order rule on the small population (cheap): no live timer registered before this
	 * round with a strictly smaller expiry may still be waiting */
	for (int j = 0; j < cfg_ntimer; j++)
		if (j != c->id && tmos[j].registered && tmos[j].expires < t->expires && tmos[j].reg_iter < iter)
			FAILP("C05", "order", "timer%d (expires %lld) ran before timer%d (expires %lld)", c->id, (long long)t->expires, j, (long long)tmos[j].expires);
	t->registered = 0; c->live = 0; summary_cnt[KIND_TIMER][c->id][0]++;
	/* one-shot: the handler may free or re-register its own struct right here */
	if (!cfg_alloc_reuse && ch_n(2)) { vz_label(L_FREE_IN_HANDLER); memset(t->iv, 0x5A, sizeof *t->iv); free(t->iv); t->iv = NULL; }
	in_timer_dispatch = 1;
	if (budget <= 0) unregister_everything();
	else run_actions(KIND_TIMER, c->id, 3);
	in_timer_dispatch = 0;
	cb_leave();
}

/* ------------------------------------------------------------------ tasks */
static int something_else_due(void)
{
	if (any_due(NULL, 0)) return 1;
	for (int i = 0; i < cfg_ntimer; i++) if (tmos[i].registered && tmos[i].expires <= vk_now()) return 1;
	return 0;
}
static void task_do_register(int i)
{
	struct tko *t = &tkos[i];
	int fresh = 1;
	if (cfg_alloc_reuse && t->iv && ch_n(2)) fresh = 0;   /* re-register the very same, already-run struct without re-init */
	if (fresh) {
		if (!cfg_alloc_reuse || !t->iv) t->iv = malloc(sizeof *t->iv);
		memset(t->iv, fill_byte(), sizeof *t->iv);
		IV_TASK_INIT(t->iv);
	}
	t->cell = new_cell(KIND_TASK, i);
	t->iv->cookie = t->cell; t->iv->handler = task_cb;
	vz_log("  task%d register (%s)", i, fresh ? "fresh" : "same struct");
	vz_hash_u(0x800 + i * 2 + fresh);
	iv_task_register(t->iv);
	t->registered = 1;
	if (cur_kind == KIND_TASK) {
		if (cur_id == i) vz_label(L_TASK_SELF_REREG);
		if (t->ran_ever && t->last_run_poll == poll_calls && something_else_due()) vz_label(L_TASK_REREG_BUSY);
	}
	if (!iv_task_registered(t->iv)) fail_any("task-registered-false", "iv_task_registered()==0 after register");
}
static void task_do_unregister(int i)
{
	struct tko *t = &tkos[i];
	if (depth > 0) vz_label(L_UNREG_DUE_VICTIM);
	vz_log("  task%d unregister", i); vz_hash_u(0x900 + i);
	iv_task_unregister(t->iv);
	t->registered = 0; t->cell->live = 0;
	if (iv_task_registered(t->iv)) fail_any("task-registered-true", "iv_task_registered()!=0 after unregister");
	if (!cfg_alloc_reuse) { memset(t->iv, 0x5A, sizeof *t->iv); free(t->iv); t->iv = NULL; }
}
static void task_cb(void *cookie)
{
	struct cell *c = cookie;
	cb_enter(c, KIND_TASK);
	struct tko *t = &tkos[c->id];
	vz_log("iter %lu: task%d handler", iter, c->id);
	callbacks_this_iter_tasks++;
	if (!c->live || c != t->cell || !t->registered) {
		FAILP("C06", "ran-not-registered", "task%d handler ran although not registered (twice, or after unregister)", c->id);
		FAILP("C01", "callback-after-unregister", "task%d handler ran after unregister/run (gen %u)", c->id, c->gen);
		fail_any("task-callback-not-registered", "task%d handler ran although not registered", c->id);
	}
	if (iv_task_registered(t->iv)) { FAILP("C06", "registered-on-entry", "task%d still registered on handler entry", c->id); FAILP("C01", "task-registered-on-entry", "task%d still registered on entry", c->id); }
	if (t->ran_ever && t->last_run_poll == poll_calls) {
		FAILP("C06", "rerun-same-round", "task%d ran twice without a kernel poll in between (after wait call #%lu)", c->id, poll_calls);
		/* a task that keeps re-registering itself is run again and again without the loop ever getting back to the kernel: that is
		 * a loop spinning in its task phase (iv_quit, descriptors and timers are never looked at) */
		if (++t->reruns_this_poll >= 3) FAILP("C07", "task-phase-spin", "task%d ran %d times in a row without the loop polling the kernel in between: a self re-registering task keeps iv_main inside its task phase", c->id, t->reruns_this_poll + 1);
	} else t->reruns_this_poll = 0;
	t->ran_ever = 1; t->last_run_poll = poll_calls;
	t->registered = 0; c->live = 0; summary_cnt[KIND_TASK][c->id][0]++;
	if (!cfg_alloc_reuse && ch_n(2)) { vz_label(L_FREE_IN_HANDLER); memset(t->iv, 0x5A, sizeof *t->iv); free(t->iv); t->iv = NULL; }
	if (budget <= 0) unregister_everything();
	else run_actions(KIND_TASK, c->id, 3);
	cb_leave();
}

/* ------------------------------------------------------------------ events */
static int ev_fail_armed;
static void event_do_register(int i, int want_fail)
{
	struct evo *e = &evos[i];
	int same = same_struct(e->iv, e->valid);
	if (!same) {
		if (!cfg_alloc_reuse || !e->iv) e->iv = malloc(sizeof *e->iv);
		memset(e->iv, fill_byte(), sizeof *e->iv);
		IV_EVENT_INIT(e->iv);
		e->valid = 1;
	} else { vz_label(L_SAME_STRUCT); vz_log("  (event%d: same struct as before, not initialised again)", i); }
	struct cell *c = new_cell(KIND_EVENT, i);
	e->iv->cookie = c; e->iv->handler = event_cb;
	ev_fail_armed = want_fail;
	int r = iv_event_register(e->iv);
	ev_fail_armed = 0;
	vz_log("  event%d register -> %d%s", i, r, want_fail ? " (descriptor creation set to fail)" : "");
	vz_hash_u(0xa00 + i * 2 + !!r);
	if (r == 0) { e->cell = c; e->registered = 1; e->posts_outstanding = 0; }
	else {
		vz_label(L_FAILED_REG); vz_label(L_EV_FAIL);
		c->live = 0;
		if (!cfg_alloc_reuse) { free(e->iv); e->iv = NULL; }
	}
}
static void event_do_unregister(int i)
{
	struct evo *e = &evos[i];
	if (depth > 0 && e->posts_outstanding) vz_label(L_UNREG_DUE_VICTIM);
	vz_log("  event%d unregister%s", i, e->posts_outstanding ? " (post pending)" : ""); vz_hash_u(0xb00 + i);
	iv_event_unregister(e->iv);
	e->registered = 0; e->cell->live = 0; e->posts_outstanding = 0;
	if (!cfg_alloc_reuse) { memset(e->iv, 0x5A, sizeof *e->iv); free(e->iv); e->iv = NULL; }
	else if (!keep_struct()) { memset(e->iv, 0x5A, sizeof *e->iv); e->valid = 0; }
}
static void event_do_post(int i)
{
	struct evo *e = &evos[i];
	vz_log("  event%d post", i); vz_hash_u(0xc00 + i);
	e->posts_outstanding = 1; e->nposts++;
	iv_event_post(e->iv);
	vz_label(L_EVENT);
}
static void event_cb(void *cookie)
{
	struct cell *c = cookie;
	cb_enter(c, KIND_EVENT);
	struct evo *e = &evos[c->id];
	vz_log("iter %lu: event%d handler", iter, c->id);
	if (!c->live || c != e->cell || !e->registered) {
		FAILP("C01", "callback-after-unregister", "event%d handler ran after iv_event_unregister returned", c->id);
		fail_any("event-callback-not-registered", "event%d handler ran although not registered", c->id);
	}
	e->ncalls++; summary_cnt[KIND_EVENT][c->id][0]++;
	if (e->ncalls > e->nposts) FAILP("C08", "over-delivered", "event%d handler ran %ld times for %ld posts", c->id, e->ncalls, e->nposts);
	e->posts_outstanding = 0;
	if (budget <= 0) unregister_everything();
	else run_actions(KIND_EVENT, c->id, 3);
	cb_leave();
}

/* ------------------------------------------------------------------ raw events */
static int count_fds(void) { int n = 0; for (int fd = 0; fd < 256; fd++) if (fcntl(fd, F_GETFD) >= 0) n++; return n; }
static int lib_closing;    /* inside a library call that releases descriptors */
static void hook_close_failed(int fd, int err)
{
	if (!lib_closing || err != EBADF) return;
	FAILP("C09", "close-not-open", "the library closed descriptor %d, which is not open (closed twice: in a threaded program the number may be somebody else's by now)", fd);
	FAILP("C18", "close-not-open", "the library closed descriptor %d, which is not open", fd);
}
static void raw_do_register(int i)
{
	struct rwo *e = &rwos[i];
	int same = same_struct(e->iv, e->valid);
	if (!same) {
		if (!cfg_alloc_reuse || !e->iv) e->iv = malloc(sizeof *e->iv);
		memset(e->iv, fill_byte(), sizeof *e->iv);
		IV_EVENT_RAW_INIT(e->iv);
		e->valid = 1;
	} else { vz_label(L_SAME_STRUCT); vz_log("  (raw%d: same struct as before, not initialised again)", i); }
	struct cell *c = new_cell(KIND_RAW, i);
	e->iv->cookie = c; e->iv->handler = raw_cb;
	int nfd0 = count_fds();
	int r = iv_event_raw_register(e->iv);
	e->nfds = count_fds() - nfd0;      /* descriptors the object holds (1 with an eventfd, 2 with the pipe transport) */
	if (r && e->nfds) { FAILP("C18", "descriptor-leak", "a failed iv_event_raw_register left %d descriptor(s) open", e->nfds); FAILP("C09", "descriptor-leak", "a failed iv_event_raw_register left %d descriptor(s) open", e->nfds); }
	vz_log("  raw%d register -> %d", i, r); vz_hash_u(0xd00 + i);
	if (r) {
		int injected = 0;
		for (int k = 0; k < nfaults; k++) if (faults[k].sys == VKS_EVENTFD2 || faults[k].sys == VKS_EVENTFD || faults[k].sys == VKS_PIPE) injected = 1;
		if (cfg_eperm_from >= 0) injected = 1;
		if (!injected) fail_any("raw-register-failed", "iv_event_raw_register returned %d without injected fault", r);
		vz_label(L_FAILED_REG); c->live = 0;
		if (!cfg_alloc_reuse) { free(e->iv); e->iv = NULL; }
		return;
	}
	e->cell = c; e->registered = 1; e->posts_outstanding = 0;
}
static void raw_do_unregister(int i)
{
	struct rwo *e = &rwos[i];
	if (depth > 0 && e->posts_outstanding) vz_label(L_UNREG_DUE_VICTIM);
	vz_log("  raw%d unregister%s", i, e->posts_outstanding ? " (post pending)" : ""); vz_hash_u(0xe00 + i);
	int nfd0 = count_fds();
	lib_closing = 1;
	iv_event_raw_unregister(e->iv);
	lib_closing = 0;
	int closed = nfd0 - count_fds();
	if (closed != e->nfds) { FAILP("C09", "descriptor-leak", "raw%d: registering opened %d descriptor(s), unregistering closed %d", i, e->nfds, closed);
				 FAILP("C18", "descriptor-leak", "raw%d: iv_event_raw_register opened %d descriptor(s), iv_event_raw_unregister closed %d", i, e->nfds, closed); }
	e->registered = 0; e->cell->live = 0; e->posts_outstanding = 0;
	if (!cfg_alloc_reuse) { memset(e->iv, 0x5A, sizeof *e->iv); free(e->iv); e->iv = NULL; }
	else if (!keep_struct()) { memset(e->iv, 0x5A, sizeof *e->iv); e->valid = 0; }
}
static struct iv_event_raw *sig_target;
static void sigusr2_poster(int sig) { (void)sig; if (sig_target) iv_event_raw_post(sig_target); }
static void raw_do_post(int i)
{
	struct rwo *e = &rwos[i];
	static const int sizes[] = { 1, 1, 1, 2, 3, 40, 1023, 1024, 1025, 2048, 3072, 65536, 65537, 70000 };
	int n = sizes[ch_n(profile == 5 ? 14 : 6)];
	int how = ch_n(profile == 5 ? 4 : 8);     /* 0,3.. direct; 1 from a signal handler; 2 from a forked child */
	if (cur_kind == KIND_RAW && cur_id == i) vz_label(L_RAW_IN_HANDLER_POST);
	if (n > 1000) vz_label(L_RAW_BIG_BURST);
	if (n % 1024 == 0) vz_label(L_RAW_1024_MULTIPLE);
	e->posts_outstanding = 1;
	vz_label(L_RAW);
	if (how == 1) {
		vz_label(L_RAW_SIGNAL_POST);
		if (n > 40) n = 40;
		vz_log("  raw%d post x%d from a signal handler", i, n); vz_hash_u(0xf00 + i); vz_hash_u(n * 4 + 1);
		sig_target = e->iv;
		for (int k = 0; k < n; k++) raise(SIGUSR2);
		sig_target = NULL;
	} else if (how == 2) {
		vz_label(L_RAW_CHILD_POST);
		if (n > 3072) n = 3072;
		vz_log("  raw%d post x%d from a forked child", i, n); vz_hash_u(0xf00 + i); vz_hash_u(n * 4 + 2);
		pid_t pid = fork();
		if (pid == 0) { for (int k = 0; k < n; k++) iv_event_raw_post(e->iv); _exit(0); }
		if (pid > 0) { int st; while (waitpid(pid, &st, 0) < 0 && errno == EINTR) ; }
	} else {
		vz_log("  raw%d post x%d", i, n); vz_hash_u(0xf00 + i); vz_hash_u(n * 4);
		for (int k = 0; k < n; k++) iv_event_raw_post(e->iv);
	}
}
static void raw_cb(void *cookie)
{
	struct cell *c = cookie;
	cb_enter(c, KIND_RAW);
	struct rwo *e = &rwos[c->id];
	vz_log("iter %lu: raw%d handler", iter, c->id);
	if (!c->live || c != e->cell || !e->registered) {
		FAILP("C01", "callback-after-unregister", "raw event %d handler ran after unregister returned", c->id);
		fail_any("raw-callback-not-registered", "raw%d handler ran although not registered", c->id);
	}
	e->posts_outstanding = 0; summary_cnt[KIND_RAW][c->id][0]++;
	if (budget <= 0) unregister_everything();
	else run_actions(KIND_RAW, c->id, 3);
	cb_leave();
}

/* ------------------------------------------------------------------ bulk */
static void unregister_everything(void)
{
	vz_label(L_CLEANUP);
	vz_log("  budget exhausted: unregister everything");
	for (int i = 0; i < cfg_nfd; i++) if (fdos[i].registered) fd_do_unregister(i);
	for (int i = 0; i < cfg_ntimer; i++) if (tmos[i].registered) timer_do_unregister(i);
	for (int i = 0; i < cfg_ntask; i++) if (tkos[i].registered) task_do_unregister(i);
	for (int i = 0; i < cfg_nev; i++) if (evos[i].registered) event_do_unregister(i);
	for (int i = 0; i < cfg_nraw; i++) if (rwos[i].registered) raw_do_unregister(i);
	if (depth > 0) vz_label(L_ZERO_VIA_CB);
}

/* ------------------------------------------------------------------ action menu */
enum act { A_NONE, A_FD_REG, A_FD_REG_TRY, A_FD_UNREG, A_FD_SET, A_FD_COOKIE, A_PEER_WRITE, A_PEER_READ, A_PEER_CLOSE,
	A_SELF_READ, A_SELF_FILL, A_TIMER_REG, A_TIMER_UNREG, A_TASK_REG, A_TASK_UNREG, A_EV_REG, A_EV_UNREG, A_EV_POST,
	A_RAW_REG, A_RAW_UNREG, A_RAW_POST, A_QUIT, A_BURN, A_FD_TRY_BAD, A_EV_REG_FAIL, A_UNREG_ALL, NACT };
static const unsigned char weights[6][NACT] = {
	/*            none reg try unr set cok pw  pr  pc  sr  sf  treg tunr kreg kunr ereg eunr epost rreg runr rpost quit burn bad evf all */
	/* all  */ {   4,  6,  2,  6,  6,  1,  4,  2,  2,  5,  2,  6,   4,   5,   2,   3,   2,   4,    2,   2,   3,    2,   2,   1,  1,  1 },
	/* fd   */ {   3,  8,  3,  6, 12,  2,  6,  4,  3,  8,  4,  2,   1,   1,   0,   0,   0,   0,    1,   1,   1,    1,   1,   1,  0,  0 },
	/* timer*/ {   3,  2,  0,  1,  1,  0,  4,  0,  0,  3,  0, 14,   6,   3,   1,   0,   0,   0,    0,   0,   0,    1,   5,   0,  0,  0 },
	/* task */ {   3,  3,  0,  2,  2,  0,  3,  0,  0,  3,  0,  4,   1,  14,   4,   1,   0,   2,    0,   0,   0,    1,   1,   0,  0,  0 },
	/* life */ {   3,  4,  2,  5,  2,  0,  2,  0,  1,  3,  0,  4,   3,   4,   2,   4,   3,   3,    2,   2,   2,    3,   1,   3,  3,  2 },
	/* raw  */ {   3,  2,  0,  1,  1,  0,  2,  0,  0,  2,  0,  3,   1,   2,   0,   1,   1,   1,    8,   4,  14,    2,   1,   0,  0,  0 },
};

static int pick_registered(int kind, int want_reg, int self_id)
{
	int n = 0, ids[MAXTIMER], cnt;
	switch (kind) {
	case KIND_FD: cnt = cfg_nfd; break; case KIND_TIMER: cnt = cfg_ntimer; break; case KIND_TASK: cnt = cfg_ntask; break;
	case KIND_EVENT: cnt = cfg_nev; break; default: cnt = cfg_nraw; break;
	}
	for (int i = 0; i < cnt; i++) {
		int r = kind == KIND_FD ? fdos[i].registered : kind == KIND_TIMER ? tmos[i].registered : kind == KIND_TASK ? tkos[i].registered :
			kind == KIND_EVENT ? evos[i].registered : rwos[i].registered;
		if (!!r == !!want_reg) ids[n++] = i;
	}
	if (!n) return -1;
	/* bias towards the running object */
	if (self_id >= 0 && ch_n(3) == 0) for (int k = 0; k < n; k++) if (ids[k] == self_id) return self_id;
	return ids[ch_n(n)];
}

static void do_action(int ctx_kind, int ctx_id)
{
	unsigned tot = 0;
	for (int a = 0; a < NACT; a++) tot += weights[profile][a];
	unsigned r = ch_n(tot), a = 0;
	while (r >= weights[profile][a]) { r -= weights[profile][a]; a++; }
	int self = -1, i;
#define SELF(k) (ctx_kind == (k) ? ctx_id : -1)
	switch (a) {
	case A_NONE: break;
	case A_FD_REG: case A_FD_REG_TRY:
		if ((i = pick_registered(KIND_FD, 0, SELF(KIND_FD))) >= 0) fd_do_register(i, a == A_FD_REG_TRY); break;
	case A_FD_UNREG: if ((i = pick_registered(KIND_FD, 1, SELF(KIND_FD))) >= 0) fd_do_unregister(i); break;
	case A_FD_SET: if ((i = pick_registered(KIND_FD, 1, SELF(KIND_FD))) >= 0) { int b = ch_n(3); fd_do_set(i, b, ch_n(3)); } break;
	case A_FD_COOKIE: if ((i = pick_registered(KIND_FD, 1, SELF(KIND_FD))) >= 0) fd_do_cookie(i); break;
	case A_PEER_WRITE: chan_io(ch_n(cfg_nfd), 0); break;
	case A_PEER_READ: chan_io(ch_n(cfg_nfd), 1); break;
	case A_PEER_CLOSE: chan_io(ch_n(cfg_nfd), 2); break;
	case A_SELF_READ: i = (ctx_kind == KIND_FD && ch_n(4)) ? ctx_id : (int)ch_n(cfg_nfd); chan_io(i, 3); break;
	case A_SELF_FILL: chan_io(ch_n(cfg_nfd), 4); break;
	case A_TIMER_REG: if ((i = pick_registered(KIND_TIMER, 0, SELF(KIND_TIMER))) >= 0) timer_do_register(i); break;
	case A_TIMER_UNREG: if ((i = pick_registered(KIND_TIMER, 1, -1)) >= 0) timer_do_unregister(i); break;
	case A_TASK_REG: if ((i = pick_registered(KIND_TASK, 0, SELF(KIND_TASK))) >= 0) task_do_register(i); break;
	case A_TASK_UNREG: if ((i = pick_registered(KIND_TASK, 1, -1)) >= 0) task_do_unregister(i); break;
	case A_EV_REG: if ((i = pick_registered(KIND_EVENT, 0, -1)) >= 0) event_do_register(i, 0); break;
	case A_EV_UNREG: if ((i = pick_registered(KIND_EVENT, 1, SELF(KIND_EVENT))) >= 0) event_do_unregister(i); break;
	case A_EV_POST: if ((i = pick_registered(KIND_EVENT, 1, SELF(KIND_EVENT))) >= 0) event_do_post(i); break;
	case A_RAW_REG: if ((i = pick_registered(KIND_RAW, 0, -1)) >= 0) raw_do_register(i); break;
	case A_RAW_UNREG: if ((i = pick_registered(KIND_RAW, 1, SELF(KIND_RAW))) >= 0) raw_do_unregister(i); break;
	case A_RAW_POST: if ((i = pick_registered(KIND_RAW, 1, SELF(KIND_RAW))) >= 0) raw_do_post(i); break;
	case A_QUIT: vz_log("  iv_quit"); vz_hash_u(0x1000); iv_quit(); if (in_main) { quit_called = 1; vz_label(L_QUIT); } break;
	case A_BURN: { int64_t dt = (int64_t[]){ 1, 999, 1000000, 7000000, 1500000000 }[ch_n(5)]; vz_log("  burn %lld ns", (long long)dt); vz_hash_u(0x1100 + dt % 97); vk_advance(dt); iv_invalidate_now(); } break;
	case A_FD_TRY_BAD: {
		struct iv_fd *bad = malloc(sizeof *bad);
		IV_FD_INIT(bad);
		int which = ch_n(2);
		int fdn = which ? open("/proc/self/status", O_RDONLY) : open("/dev/null", O_RDONLY);
		if (!which) close(fdn);             /* closed descriptor number */
		bad->fd = fdn; bad->cookie = NULL; bad->handler_in = fd_in1;
		int before = n_registered();
		int r = iv_fd_register_try(bad);
		vz_log("  register_try on %s fd -> %d", which ? "regular-file" : "closed", r); vz_hash_u(0x1200 + which);
		if (r) {
			vz_label(L_FAILED_REG);
			if (iv_fd_registered(bad)) FAILP("C07", "failed-try-left-registered", "iv_fd_register_try failed but iv_fd_registered() is true");
			(void)before;
		} else {
			/* accepted (poll on a regular file): take it out again at once, it is not one of our channels */
			if (!which) fail_any("register_try-accepted-closed-fd", "iv_fd_register_try succeeded on a closed descriptor");
			iv_fd_unregister(bad);
		}
		if (which) close(fdn);
		memset(bad, 0x5A, sizeof *bad); free(bad);
	} break;
	case A_EV_REG_FAIL:
		if (!known_evfail_excluded) { if ((i = pick_registered(KIND_EVENT, 0, -1)) >= 0) event_do_register(i, 1); }
		else vz_count(9, 1);
		break;
	case A_UNREG_ALL: if (depth > 0 && ch_n(4) == 0) unregister_everything(); break;
	}
	(void)self;
}
static void run_actions_confluent(int kind, int id)
{
	conf_seat(kind, id, conf_inv[kind][id]++);
	int left = --conf_budget[kind][id];
	switch (kind) {
	case KIND_FD:
		if (left <= 0) { fd_do_unregister(id); return; }
		switch (ch_n(4)) { case 0: break; case 1: chan_io(id, 3); break; case 2: { int b = ch_n(3); fd_do_set(id, b, ch_n(3)); } break; default: chan_io(id, 3); break; }
		break;
	case KIND_TIMER: if (left > 0 && ch_n(2)) timer_do_register(id); break;
	case KIND_TASK: if (left > 0 && ch_n(2)) task_do_register(id); break;
	case KIND_EVENT: if (left <= 0) event_do_unregister(id); else if (ch_n(2)) event_do_post(id); break;
	case KIND_RAW: if (left <= 0) raw_do_unregister(id); else if (ch_n(2)) { rwos[id].posts_outstanding = 1; iv_event_raw_post(rwos[id].iv); } break;
	}
}
static long marathon_left;
static void run_actions(int ctx_kind, int ctx_id, int nmax)
{
	if (marathon_left > 0 && in_main) {
		/* very long runs of one simple program: a task that re-registers itself on every round next to a descriptor that stays
		 * readable (counters that wrap, epochs that overflow, per-iteration leaks) */
		if (ctx_kind == KIND_TASK) { if (--marathon_left > 1) task_do_register(ctx_id); else { marathon_left = 0; unregister_everything(); } }
		return;
	}
	if (confluent && in_main) { run_actions_confluent(ctx_kind, ctx_id); return; }
	int n = ch_n(nmax + 1);
	for (int k = 0; k < n; k++) do_action(ctx_kind, ctx_id);
}

/* ------------------------------------------------------------------ vk hooks */
static int64_t hook_clock_incr(void)
{
	if (!cfg_clk_pct || !ch_pct(cfg_clk_pct)) return 0;
	return (int64_t[]){ 1, 999, 100000, 1000000, 7000000 }[ch_n(5)];
}

static int hook_sysfault(int sys, unsigned long k)
{
	if (sys == forced_fault_sys && (long)k >= forced_fault_from && (long)k < forced_fault_from + forced_fault_count) return forced_fault_errno;
	for (int i = 0; i < nfaults; i++)
		if (faults[i].sys == sys && (long)k >= faults[i].from && (long)k < faults[i].from + faults[i].count) { vz_label(L_FAULT_HIT); return faults[i].err; }
	if (eintr_at >= 0 && in_main && (sys == VKS_EPOLL_WAIT || sys == VKS_EPOLL_PWAIT2 || sys == VKS_POLL || sys == VKS_PPOLL)) {
		/* k counts the calls of the wait primitives made from inside iv_main, fallback retries included */
		if (loop_waits_seen++ == eintr_at) { vz_label(L_FAULT_HIT); vz_label(L_EINTR); forced_eintr_now = 1; return EINTR; }
	}
	if (sys == VKS_EPOLL_PWAIT2 && cfg_pwait2_err) { vz_label(L_PWAIT2_FALLBACK); return cfg_pwait2_err; }
	if (sys == VKS_EVENTFD2 && ev_fail_armed) return EMFILE;
	/* a sandbox clamping down in mid-run refuses the whole eventfd family from then on */
	if (sys == VKS_EVENTFD2 && cfg_eperm_from >= 0 && (long)k >= cfg_eperm_from) { eperm_active = 1; vz_label(L_FAULT_HIT); return EPERM; }
	if (sys == VKS_EVENTFD && eperm_active) return EPERM;
	if (sys == VKS_EVENTFD2 && cfg_eventfd_mode >= 1) return cfg_eventfd_mode == 1 ? EINVAL : ENOSYS;
	if (sys == VKS_EVENTFD && cfg_eventfd_mode >= 2) return ENOSYS;
	if (sys == VKS_EPOLL_WAIT || sys == VKS_EPOLL_PWAIT2 || sys == VKS_POLL || sys == VKS_PPOLL) {
		int prim = sys == VKS_EPOLL_WAIT ? VK_EPOLL_WAIT : sys == VKS_EPOLL_PWAIT2 ? VK_EPOLL_PWAIT2 : sys == VKS_POLL ? VK_POLL : VK_PPOLL;
		if (forced_eintr_prim == prim && (long)vk_wait_count(prim) == forced_eintr_k) { vz_label(L_EINTR); return EINTR; }
		if (forced_eintr_prim == -2 && (long)k == forced_eintr_k) { vz_label(L_EINTR); return EINTR; }
		if (cfg_eintr_pct && in_main && ch_pct(cfg_eintr_pct)) { vz_label(L_EINTR); return EINTR; }
	}
	return 0;
}

static int64_t earliest_expiry(int *which)
{
	int64_t e = VK_INF; *which = -1;
	for (int i = 0; i < cfg_ntimer; i++) if (tmos[i].registered && tmos[i].expires < e) { e = tmos[i].expires; *which = i; }
	return e;
}

static void end_of_dispatch_checks(void)
{
	/* C02 (b): pairs due at the last real poll, untouched and not called in the dispatch that followed */
	for (int i = 0; i < cfg_nfd; i++) {
		struct fdo *f = &fdos[i];
		if (!f->registered || !f->gt_valid) continue;
		for (int b = 0; b < 3; b++) {
			if (f->var[b] && f->gt[b] && !f->touched && f->called_iter[b] != iter) {
				if (++f->streak[b] >= 2)
					FAILP("C02", "starved", "fd%d band%d: wanted and ready at two consecutive polls, untouched, never called", i, b);
			} else f->streak[b] = 0;
			if (f->was_ready[b] && !f->gt[b]) vz_label(L_READY_THEN_NOT);
			f->was_ready[b] = f->gt[b];
		}
	}
}

static int last_wait_polled;
static void hook_wait_entry(struct vk_wait *w)
{
	if (!in_main) return;   /* not a loop wait */
	if (last_wait_polled) end_of_dispatch_checks();
	last_wait_polled = 1;
	iter++;
	callbacks_this_iter = 0; blocked_env_event = 0;
	entry_reading = vk_last_reading(); prev_wait_end = last_wait_end;
	vz_log("wait #%lu %s timeout=%lld ns%s", iter, vk_prim_name[w->prim], (long long)w->timeout_ns, w->tfd_armed ? " (timerfd armed)" : "");
	int nreg = n_registered();
	/* The loop may finish library-internal work (e.g. the local-event task left behind by a post whose
	 * event was unregistered) with non-blocking polls before it returns; it may not keep going. */
	if (nreg == 0 || quit_called) {
		if (++idle_waits > 2) {
			FAILP("C07", "should-have-returned", "loop made %d waits although %s", idle_waits, quit_called ? "iv_quit was called" : "no object is registered");
			fail_any("loop-did-not-return", "loop keeps waiting although %s", quit_called ? "iv_quit was called" : "nothing is registered");
		}
	} else idle_waits = 0;
	/* C04 due-not-fired: same timer due (per the thread's own clock) at two consecutive wait entries */
	for (int i = 0; i < cfg_ntimer; i++) {
		struct tmo *t = &tmos[i];
		if (!t->registered) continue;
		if (t->expires <= vk_now()) {
			if (++t->due_seen >= 2) {
				FAILP("C04", "due-timer-not-fired", "timer%d due since two wait entries (time %lld, loop's clock %lld, expires %lld) but not fired", i, (long long)vk_now(), (long long)vk_last_reading(), (long long)t->expires);
				if (task_pending_iters > 0 || callbacks_this_iter_tasks > 0)
					FAILP("C06", "timer-starved-by-tasks", "timer%d due since two wait entries while tasks keep running (time %lld, loop's clock %lld, expires %lld)", i, (long long)vk_now(), (long long)vk_last_reading(), (long long)t->expires);
			}
		} else t->due_seen = 0;
	}
	int anytask = 0;
	for (int i = 0; i < cfg_ntask; i++) anytask |= tkos[i].registered;
	if (anytask) { if (++task_pending_iters >= 5 && cfg_method == 0) vz_label(L_ZERO_DL_TFD); } else task_pending_iters = 0;
	for (int i = 0; i < cfg_nfd; i++) fdos[i].touched = 0;
	callbacks_this_iter_tasks = 0;
	snapshot();
}

static int legit_block_or_fail(struct vk_wait *w);

static int hook_wait_block(struct vk_wait *w)
{
	if (!in_main) return VK_SLEEP;
	char what[64];
	if (n_registered() == 0 || quit_called) {
		FAILP("C07", "should-have-returned", "loop blocks (timeout %lld ns) although %s", (long long)w->timeout_ns, quit_called ? "iv_quit was called" : "no object is registered");
		fail_any("loop-did-not-return", "loop blocks although %s", quit_called ? "iv_quit was called" : "nothing is registered");
	}
	/* --- blocking-point oracles: nothing may be due --- */
	if (any_due(what, sizeof what)) { FAILP("C02", "block-while-due", "loop blocks (timeout %lld ns) while %s is wanted and ready", (long long)w->timeout_ns, what);
					  FAILP("C07", "block-while-due", "loop blocks while %s is wanted and ready", what); }
	for (int i = 0; i < cfg_ntask; i++)
		if (tkos[i].registered) { FAILP("C06", "block-with-task-pending", "loop blocks (timeout %lld ns, deadline in %lld ns) while task%d is registered", (long long)w->timeout_ns, w->deadline == VK_INF ? -1ll : (long long)(w->deadline - vk_now()), i);
					  FAILP("C07", "block-with-task-pending", "loop blocks while task%d is registered", i); }
	for (int i = 0; i < cfg_nev; i++)
		if (evos[i].registered && evos[i].posts_outstanding) { FAILP("C08", "undelivered-post", "loop blocks while event%d has an undelivered post", i);
					  FAILP("C07", "block-with-post-pending", "loop blocks while event%d has an undelivered post", i); }
	for (int i = 0; i < cfg_nraw; i++)
		if (rwos[i].registered && rwos[i].posts_outstanding) { FAILP("C09", "undelivered-post", "loop blocks while raw event %d has an undelivered post", i);
					  FAILP("C07", "block-with-post-pending", "loop blocks while raw event %d has an undelivered post", i); }
	int which; int64_t e = earliest_expiry(&which);
	if (e != VK_INF) {
		int64_t slack = 0;
		if (w->deadline == w->timeout_deadline && w->timeout_deadline != VK_INF && (w->prim == VK_EPOLL_WAIT || w->prim == VK_POLL)) slack = 1000000;
		/* the timeout is computed from the loop's cached clock, so it may overshoot by what passed since that reading */
		/* ... but the clock must have been re-read after the previous wait call (time passes in waits) */
		int64_t ref = entry_reading > prev_wait_end ? entry_reading : prev_wait_end;
		if (ref >= 0 && w->entry_now > ref) slack += w->entry_now - ref;
		if (w->deadline == w->tfd_deadline && w->tfd_deadline != VK_INF) slack = 0;   /* absolute kernel timer: exact */
		if (w->deadline == VK_INF || w->deadline > e + slack) {
			FAILP("C04", "oversleep", "loop blocks until %s but timer%d expires at now%+lld ns (%s timeout=%lld ns, timerfd %s)",
			      w->deadline == VK_INF ? "forever" : "later", which, (long long)(e - vk_now()), vk_prim_name[w->prim], (long long)w->timeout_ns, w->tfd_armed ? "armed" : "off");
			FAILP("C07", "oversleep", "loop blocks past the expiry of timer%d", which);
			/* with the kernel timer armed for another timer's expiry, that other timer decides when this one fires */
			if (w->tfd_armed && w->tfd_deadline != VK_INF && w->tfd_deadline > e)
				FAILP("C05", "fires-with-other-timer", "timer%d (expires at now%+lld ns) will not fire before the kernel timer that is armed for a later timer's expiry (now%+lld ns): a timer registered earlier decides when this one runs", which, (long long)(e - vk_now()), (long long)(w->tfd_deadline - vk_now()));
		}
	}
	/* --- environment decision --- */
	if (confluent) conf_seat(99, 0, conf_block_no++);
	unsigned c = ch_n(6);
	if (c >= 1 && c <= 3 && cfg_nfd) {
		int i = ch_n(cfg_nfd);
		if (ch_n(2) && w->deadline != VK_INF && w->deadline > vk_now()) {
			int64_t span = w->deadline - vk_now();
			vk_advance(span / (2 + ch_n(6)));       /* the event happens part-way through the sleep */
		}
		vz_log(" (blocked) environment event:");
		chan_io(i, c == 1 ? 0 : c == 2 ? 1 : 2);
		blocked_env_event = 1;
		snapshot();
		return VK_RETRY;
	}
	if (w->deadline == VK_INF && legit_block_or_fail(w)) return VK_RETRY;
	return VK_SLEEP;
}

/* infinite wait, nothing scheduled: if the model agrees that blocking is right, wake the loop by
 * closing peers (so that remaining handlers run and the budget logic can wind the case down);
 * if nothing can ever wake it, the case ends here, legitimately blocked. */
static int legit_block_or_fail(struct vk_wait *w)
{
	int which;
	if (earliest_expiry(&which) != VK_INF) return 0;   /* oversleep oracle has spoken (or is disabled) */
	budget = 0;
	int did = 0;
	for (int i = 0; i < cfg_nfd; i++) {
		struct fdo *f = &fdos[i];
		if (f->registered && (f->var[0] || f->var[1] || f->var[2]) && f->peer_open) { close(f->peer); f->peer_open = 0; did = 1; f->touched = 1; }
	}
	if (did) { vz_log(" (blocked for good) environment closes all peers"); blocked_env_event = 1; snapshot(); }
	(void)w;
	return did;
}
static void hook_quiescent(struct vk_wait *w)
{
	(void)w;
	int which;
	if (earliest_expiry(&which) != VK_INF)
		fail_any("hang-with-timer", "loop blocks forever although timer%d is registered", which);
	if (any_due(NULL, 0)) fail_any("hang-while-due", "loop blocks forever while a wanted descriptor is ready");
	vz_label(L_ENDED_BLOCKED);
	{ uint64_t h = 1469598103934665603ull; for (int k = 0; k < NKIND; k++) for (int i = 0; i < MAXTIMER; i++) for (int b = 0; b < 3; b++) { h ^= (uint64_t)summary_cnt[k][i][b] + 1; h *= 1099511628211ull; }
	  vz_count(6, poll_calls); vz_count(7, (long)(h & 0x7fffffff)); vz_count(10, conf_block_no); if (vz_has_label(L_FAULT_HIT) && !strncmp(vz_prop, "C15", 3)) vz_nontrivial(); }
	vz_log("case ends: loop legitimately blocked forever (%d objects registered, none can become due)", n_registered());
	vz_finish();
}

static void hook_wait_return(struct vk_wait *w, int n)
{
	if (!in_main) return;
	poll_seq++; poll_calls++;
	/* a wake-up makes progress if a callback ran since the previous one or virtual time passed */
	if (vk_now() == w->entry_now && cbs_since_wait_return == 0 && poll_seq > 1) {
		if (++zero_progress > 8) {
			FAILP("C07", "spin", "9 consecutive wake-ups without any callback and without time passing (%s timeout=%lld ns)", vk_prim_name[w->prim], (long long)w->timeout_ns);
			FAILP("C04", "spin", "9 consecutive wake-ups without any callback and without time passing (%s timeout=%lld ns)", vk_prim_name[w->prim], (long long)w->timeout_ns);
			fail_any("spin", "loop spins: 9 consecutive empty wake-ups");
		}
	} else zero_progress = 0;
	cbs_since_wait_return = 0; last_wait_end = vk_now();
	vz_log(" -> %d event(s), now=+%lld ns", n, (long long)(vk_now() - 1000 * VK_NS));
}
static void hook_wait_error(struct vk_wait *w, int err)
{
	if (!in_main) return;
	vz_log("wait %s -> injected errno %d", vk_prim_name[w->prim], err);
	poll_calls++;
	if (err == EINTR) {
		if (last_wait_polled) end_of_dispatch_checks();
		last_wait_polled = 0;   /* no kernel poll happened: not an iteration for the fd rules */
		if (forced_eintr_now) { forced_eintr_now = 0; if (vz_param_l("eintr_adv", 0)) vk_advance(vz_param_l("eintr_adv", 0)); }     /* enumerated fault: no draws, so that the rest of the program is unchanged */
		else if (ch_n(2)) vk_advance((int64_t[]){ 1, 1000, 1000000, 50000000 }[ch_n(4)]);
		last_wait_end = vk_now();   /* time may have passed in an interrupted wait: the clock has to be re-read (not so after ENOSYS/EPERM) */
	}
}
static void hook_io_pre(int is_write, int fd, size_t n)
{
	(void)n;
	if (!is_write) return;
	for (int i = 0; i < cfg_nraw; i++) {
		if (!rwos[i].registered || rwos[i].iv->event_wfd != fd) continue;
		int fl = fcntl(fd, F_GETFL);
		if (!(fl & O_NONBLOCK)) {
			struct pollfd p = { fd, POLLOUT, 0 };
			__real_poll(&p, 1, 0);
			if (!(p.revents & POLLOUT))
				FAILP("C09", "post-would-block", "iv_event_raw_post writes to descriptor %d of raw event %d, which is in blocking mode and not writable: the poster would block", fd, i);
			FAILP("C09", "post-on-blocking-descriptor", "iv_event_raw_post writes to descriptor %d of raw event %d, which is in blocking mode", fd, i);
		}
	}
}
static int hook_poll_is_probe(void) { return !in_main || depth > 0; }
static void hook_tfd_set(int fd, int64_t deadline)
{
	(void)fd;
	if (deadline != VK_INF) {
		if (tfd_was_armed) vz_label(L_TFD_REARM);
		vz_label(L_TFD_ARMED); tfd_was_armed = 1;
		if (deadline == 1) vz_label(L_ZERO_DL_TFD);
		vz_log("  timerfd armed for now%+lld ns", (long long)(deadline - vk_now()));
	} else { if (tfd_was_armed) vz_label(L_TFD_REARM); vz_log("  timerfd disarmed"); }
}

/* ------------------------------------------------------------------ case */
static void make_channels(void)
{
	for (int i = 0; i < cfg_nfd; i++) {
		struct fdo *f = &fdos[i];
		f->ch_kind = ch_n(3);
		int p[2];
		if (f->ch_kind == 2) { if (socketpair(AF_UNIX, SOCK_STREAM, 0, p) < 0) vz_inconclusive("socketpair"); f->fd = p[0]; f->peer = p[1]; }
		else { if (pipe(p) < 0) vz_inconclusive("pipe"); if (f->ch_kind == 0) { f->fd = p[0]; f->peer = p[1]; } else { f->fd = p[1]; f->peer = p[0]; } }
		f->peer_open = 1;
		vz_hash_u(0x10 + f->ch_kind);
	}
}

static const char *excl[4] = { "", "epoll-timerfd", "epoll-timerfd epoll", "epoll-timerfd epoll ppoll" };
static const char *mname[4] = { "epoll-timerfd", "epoll", "ppoll", "poll" };

void target_run(void)
{
	const char *prof = vz_param("profile", "all");
	profile = !strcmp(prof, "fd") ? 1 : !strcmp(prof, "timer") ? 2 : !strcmp(prof, "task") ? 3 : !strcmp(prof, "life") ? 4 : !strcmp(prof, "raw") ? 5 : 0;
	known_handlerless_excluded = vz_param_l("excl_handlerless", 0);
	known_evfail_excluded = vz_param_l("excl_evfail", 0);
	int big = vz_param_l("big", 0);

	/* ---- configuration ---- */
	long fm = vz_param_l("method", -1);
	cfg_method = ch_n(4); if (fm >= 0) cfg_method = fm;
	cfg_alloc_reuse = ch_n(2);
	cfg_clk_pct = (int[]){ 0, 0, 10, 40 }[ch_n(4)];
	cfg_eintr_pct = (int[]){ 0, 0, 0, 8 }[ch_n(4)];
	cfg_pwait2_err = (int[]){ 0, 0, 0, 0, ENOSYS, EPERM }[ch_n(6)];
	cfg_cb_cost = (int64_t[]){ 0, 0, 150, 40000 }[ch_n(4)];
	cfg_eventfd_mode = (profile == 5) ? (int[]){ 0, 1, 2, 2 }[ch_n(4)] : (int[]){ 0, 0, 0, 0, 0, 1, 2 }[ch_n(7)];
	if (vz_param_l("eventfd_mode", -1) >= 0) cfg_eventfd_mode = vz_param_l("eventfd_mode", 0);
	if (profile == 5 && cfg_eventfd_mode == 0 && ch_n(5) == 0) cfg_eperm_from = 1 + ch_n(4);
	if (cfg_eventfd_mode == 1) vz_label(L_RAW_OLD_EVENTFD); else if (cfg_eventfd_mode == 2) vz_label(L_RAW_PIPE);
	vz_hash_u(cfg_eventfd_mode);
	if (vz_param_l("no_eintr", 0)) cfg_eintr_pct = 0;
	if (vz_param_l("pwait2_err", -1) >= 0) cfg_pwait2_err = vz_param_l("pwait2_err", 0);
	forced_eintr_prim = vz_param_l("eintr_prim", -1); forced_eintr_k = vz_param_l("eintr_k", -1);
	forced_fault_sys = vz_param_l("fault_sys", -1); forced_fault_errno = vz_param_l("fault_errno", ENOSYS);
	forced_fault_from = vz_param_l("fault_from", 0); forced_fault_count = vz_param_l("fault_count", 1 << 30);
	eintr_at = vz_param_l("eintr_at", -1); expect_fatal = vz_param_l("expect_fatal", 0);
	confluent = vz_param_l("confluent", 0);
	{ const char *fs = vz_param("faults", NULL);
	  while (fs && *fs && nfaults < 6) {
		long a, b, c2, d; int used = 0;
		if (sscanf(fs, "%ld:%ld:%ld:%ld%n", &a, &b, &c2, &d, &used) < 4) break;
		faults[nfaults].sys = a; faults[nfaults].err = b; faults[nfaults].from = c2; faults[nfaults].count = d; nfaults++;
		fs += used; if (*fs == ',') fs++;
	  } }
	cfg_nfd = 1 + ch_n(big ? (profile == 1 ? MAXFD : 8) : 5); cfg_ntimer = 1 + ch_n(big ? (profile == 2 ? MAXTIMER : 12) : 6); cfg_ntask = 1 + ch_n(big ? MAXTASK : 3);
	cfg_nev = 1 + ch_n(big ? MAXEV : 2); cfg_nraw = 1 + ch_n(big ? MAXRAW : 2);
	budget = 20 + ch_n(big ? 250 : 100);
	vz_label(L_M0 + cfg_method); vz_count(cfg_method, 1);
	vz_hash_u(cfg_method); vz_hash_u(cfg_alloc_reuse); vz_hash_u(cfg_pwait2_err);

	setenv("IV_EXCLUDE_POLL_METHOD", excl[cfg_method], 1);
	const char *ex = vz_param("exclude", NULL);
	if (ex) {      /* blanks arrive escaped (\x20, \x09) when the parameter travels through a list file */
		char *u = malloc(strlen(ex) + 1), *o = u;
		for (const char *q = ex; *q; ) { if (!strncmp(q, "\\x20", 4)) { *o++ = ' '; q += 4; } else if (!strncmp(q, "\\x09", 4)) { *o++ = '\t'; q += 4; } else *o++ = *q++; }
		*o = 0; ex = u;
		setenv("IV_EXCLUDE_POLL_METHOD", ex, 1);
	}
	vz_log("config: method=%s alloc=%s clock-incr=%d%% callback-cost=%lldns eintr=%d%% pwait2-errno=%d objects fd=%d timer=%d task=%d event=%d raw=%d budget=%ld",
	       mname[cfg_method], cfg_alloc_reuse ? "reuse" : "malloc/free", cfg_clk_pct, (long long)cfg_cb_cost, cfg_eintr_pct, cfg_pwait2_err, cfg_nfd, cfg_ntimer, cfg_ntask, cfg_nev, cfg_nraw, budget);

	vk_reset();
	vk_hooks.clock_incr = hook_clock_incr; vk_hooks.sysfault = hook_sysfault; vk_hooks.close_failed = hook_close_failed; vk_hooks.wait_entry = hook_wait_entry;
	vk_hooks.wait_block = hook_wait_block; vk_hooks.quiescent = hook_quiescent; vk_hooks.wait_return = hook_wait_return;
	vk_hooks.wait_error = hook_wait_error; vk_hooks.tfd_set = hook_tfd_set; vk_hooks.poll_is_probe = hook_poll_is_probe; vk_hooks.io_pre = hook_io_pre;
	{ struct sigaction sa; memset(&sa, 0, sizeof sa); sa.sa_handler = sigusr2_poster; sigaction(SIGUSR2, &sa, NULL); }
	vk_active = 1; { extern int vlock_active; vlock_active = 1; }
	iv_set_fatal_msg_handler(fatal_handler);

	if (confluent) {
		budget = 1 << 30; cfg_eintr_pct = 0; cfg_clk_pct = 0;
		conf_seed = 0x9E3779B97F4A7C15ull;
		for (int k = 0; k < 16; k++) conf_seed = conf_seed * 31 + ch_byte();
		for (int k = 0; k < NKIND; k++) for (int i = 0; i < MAXTIMER; i++) conf_budget[k][i] = 2 + (int)((conf_seed >> (k * 5 + i % 7)) & 7);
	}
	make_channels();
	iv_init();
	if (expect_fatal) FAILP("C15", "no-fatal-when-all-excluded", "every poll method is excluded but iv_init returned (method %s)", iv_poll_method_name());
	{ const char *em = vz_param("expect_method", NULL);
	  if (em && strcmp(iv_poll_method_name(), em)) FAILP("C15", "method-selection", "IV_EXCLUDE_POLL_METHOD='%s' (+ injected creation failures) selected %s, expected %s", getenv("IV_EXCLUDE_POLL_METHOD"), iv_poll_method_name(), em); }
	if (!ex && !nfaults && strcmp(iv_poll_method_name(), mname[cfg_method]) && forced_fault_sys < 0)
		FAILP("C15", "method-selection", "IV_EXCLUDE_POLL_METHOD='%s' selected %s, expected %s", excl[cfg_method], iv_poll_method_name(), mname[cfg_method]);

	/* a "ticker": a descriptor that stays readable and whose handler (mostly) leaves it so, which wakes
	 * the loop again and again while the same timer deadline is pending (kernel-timer path) */
	int ticker = (profile == 2 || profile == 3) ? ch_n(2) : (ch_n(6) == 0);
	long marathon = vz_param_l("marathon", 0);
	if (marathon) {
		budget = 1 << 30; cfg_eintr_pct = 0; ticker = 0;
		vz_log("marathon: %ld rounds of a self re-registering task beside a readable descriptor", marathon);
		if (fdos[0].ch_kind == 1) { close(fdos[0].fd); close(fdos[0].peer); int p2[2]; if (pipe(p2) < 0) vz_inconclusive("pipe"); fdos[0].ch_kind = 0; fdos[0].fd = p2[0]; fdos[0].peer = p2[1]; }
		fd_do_register(0, 0);
		if (!fdos[0].var[0]) fd_do_set(0, 0, 1);
		chan_io(0, 0);
		task_do_register(0);
		marathon_left = marathon;
		in_main = 1; poll_calls++; iv_main(); in_main = 0;
		if (n_registered()) fail_any("early-return", "iv_main returned during the marathon");
		iv_deinit(); vk_active = 0;
		vz_count(4, callbacks_total); vz_count(5, iter);
		vz_label(L_TASK_SELF_REREG); vz_nontrivial();
		return;
	}
	for (rounds = 0; rounds < 3; rounds++) {
		vz_log("setup (round %d):", rounds);
		if (profile == 5 && rounds == 0) { raw_do_register(0); if (cfg_nraw > 1 && ch_n(2)) raw_do_register(1); }
		if (ticker && rounds == 0 && fdos[0].ch_kind != 1) {
			vz_log("  (ticker)");
			fd_do_register(0, 0);
			if (!fdos[0].var[0]) fd_do_set(0, 0, 1);
			chan_io(0, 0);
		}
		int nsetup = 1 + ch_n(10);
		for (int k = 0; k < nsetup; k++) do_action(-1, -1);
		quit_called = 0;
		int before = n_registered();
		vz_log("iv_main() with %d objects registered", before);
		in_main = 1; last_wait_polled = 0; zero_progress = 0; cbs_since_wait_return = 0;
		idle_waits = 0;
		poll_calls++;   /* a new iv_main run is a new round for the task rules */
		iv_main();
		in_main = 0;
		if (last_wait_polled) end_of_dispatch_checks();
		last_wait_polled = 0;
		int nreg = n_registered();
		vz_log("iv_main returned (%d objects registered, quit=%d)", nreg, quit_called);
		if (nreg != 0 && !quit_called) { FAILP("C07", "early-return", "iv_main returned with %d objects registered and no iv_quit", nreg);
						 fail_any("early-return", "iv_main returned with %d objects registered and no iv_quit", nreg); }
		for (int i = 0; i < cfg_ntimer; i++)   /* exactly-once: nothing registered may be left unfired unless quit */
			if (tmos[i].registered && !quit_called) FAILP("C04", "never-fired", "timer%d never fired", i);
		if (confluent || budget <= 0) break;
		/* `while (!done) iv_main();` idiom: a handler quit the loop with other work collected or pending; run again */
		if (quit_called && nreg) { if (ch_n(4) == 0) break; vz_label(L_QUIT_RERUN); }
		else if (ch_n(3) != 1) break;
		vz_label(L_SECOND_ROUND);
	}
	/* wind down */
	if (n_registered()) { budget = 0; depth = 0; cur_kind = -1; unregister_everything(); }
	iv_deinit();
	vk_active = 0;

	/* non-triviality per property */
	const char *p = vz_prop;
	int nt = 0;
	if (!strncmp(p, "C01", 3)) nt = vz_has_label(L_UNREG_DUE_VICTIM) || vz_has_label(L_UNREG_SELF);
	else if (!strncmp(p, "C02", 3)) nt = vz_has_label(L_SET_ON_READY) || vz_has_label(L_AROSE_BLOCKED);
	else if (!strncmp(p, "C03", 3)) nt = vz_has_label(L_READY_THEN_NOT) || vz_has_label(L_REUSE_READY);
	else if (!strncmp(p, "C04", 3)) nt = vz_has_label(L_TFD_REARM) || vz_has_label(L_PAST_EXPIRY) || vz_has_label(L_REARM_HANDLER);
	else if (!strncmp(p, "C06", 3)) nt = vz_has_label(L_TASK_REREG_BUSY) || vz_has_label(L_ZERO_DL_TFD);
	else if (!strncmp(p, "C15", 3)) nt = vz_has_label(L_FAULT_HIT);
	else if (!strncmp(p, "C09", 3)) nt = vz_has_label(L_RAW_IN_HANDLER_POST) || (vz_has_label(L_RAW_BIG_BURST) && vz_has_label(L_RAW_PIPE)) || vz_has_label(L_RAW_SIGNAL_POST) || vz_has_label(L_RAW_CHILD_POST);
	else if (!strncmp(p, "C07", 3)) nt = vz_has_label(L_QUIT) || vz_has_label(L_FAILED_REG) || vz_has_label(L_ZERO_VIA_CB);
	else nt = callbacks_total > 3;
	if (nt) vz_nontrivial();
	vz_count(4, callbacks_total); vz_count(5, iter); vz_count(6, poll_calls);
	{ uint64_t h = 1469598103934665603ull; for (int k = 0; k < NKIND; k++) for (int i = 0; i < MAXTIMER; i++) for (int b = 0; b < 3; b++) { h ^= (uint64_t)summary_cnt[k][i][b] + 1; h *= 1099511628211ull; }
	  vz_count(7, (long)(h & 0x7fffffff)); vz_count(10, conf_block_no); }
}

size_t target_gen(uint64_t seed, uint64_t index, uint8_t *buf, size_t cap)
{
	struct vz_rng r; rng_seed(&r, seed, index);
	long big = vz_param_l("big", 0);
	return vz_gen_default(&r, buf, cap, 16, big ? 1500 : 400);
}
