/*
 * t_hyg -- C18: memory / descriptor / thread hygiene over init -> use -> deinit cycles.
 * One generated program is replayed in 3..8 cycles, some in the main thread and some in
 * short-lived threads that exit with or without iv_deinit().  After the warm-up cycles the
 * number of allocated bytes, the set of open descriptors and the number of live threads must be
 * exactly what they were; LeakSanitizer must find nothing at the end.
 * (Real time, no virtual kernel: every timer used here is due at once.)
 */
#ifndef _GNU_SOURCE
#define _GNU_SOURCE
#endif
#include "vfz.h"
#include <dirent.h>
#include <errno.h>
#include <fcntl.h>
#include <pthread.h>
#include <signal.h>
#include <stdio.h>
#include <stdlib.h>
#include <string.h>
#include <unistd.h>
#include <sys/socket.h>
#include <sanitizer/allocator_interface.h>
#include <sanitizer/lsan_interface.h>
#include <iv.h>
#include <iv_event.h>
#include <iv_event_raw.h>
#include <iv_fd_pump.h>
#include <iv_inotify.h>
#include <iv_signal.h>
#include <iv_work.h>
#include <iv_tls.h>
#include <stdatomic.h>

const char *target_name = "hyg";

enum { L_THREAD_NO_DEINIT, L_THREAD_DEINIT, L_POLL_ARRAYS, L_BIG_TIMERS, L_PUMP, L_POOL, L_EVENTS, L_KERNEL_TIMER, L_INOTIFY, L_SIGNAL, L_M0, L_M1, L_M2, L_M3, L_FAILED_TRY, L_MAIN_CYCLES, L_PUMP_SPLICE_CACHED, L_RAW, L_TLS_MODULE, L_FLOOD };

#define FAILC(tag, ...) vz_fail("C18", tag, __VA_ARGS__)
static void fatal_handler(const char *msg) { vz_fail("C18", "fatal", "iv_fatal: %s", msg); _exit(3); }

/* a module of the application that keeps per-thread state through iv_tls: a pipe made in ->init_thread and released in
 * ->deinit_thread, which (as documented) may call any ivykis function - it registers and unregisters a descriptor and a timer */
struct mod_tls { int pfd[2]; struct iv_fd fd; struct iv_timer tm; };
static atomic_int mod_inits, mod_deinits;
static void mod_noop(void *c) { (void)c; }
static struct iv_tls_user mod_tls_user;
static void mod_init_thread(void *p)
{
	struct mod_tls *t = p;
	if (pipe(t->pfd) < 0) vz_inconclusive("pipe");
	atomic_fetch_add(&mod_inits, 1);
}
static void mod_deinit_thread(void *p)
{
	struct mod_tls *t = p;
	atomic_fetch_add(&mod_deinits, 1);
	if (!iv_inited()) { FAILC("deinit-hook-context", "an iv_tls ->deinit_thread hook runs in a thread that ivykis reports as not initialised (iv_inited() = 0): the hook cannot call ivykis functions to release what it holds"); return; }
	if (iv_tls_user_ptr(&mod_tls_user) != p) FAILC("deinit-hook-context", "iv_tls_user_ptr() inside ->deinit_thread does not return the module's per-thread state");
	IV_FD_INIT(&t->fd); t->fd.fd = t->pfd[0]; t->fd.cookie = t; t->fd.handler_in = mod_noop;
	iv_fd_register(&t->fd); iv_fd_unregister(&t->fd);
	IV_TIMER_INIT(&t->tm); iv_validate_now(); t->tm.expires = iv_now; t->tm.expires.tv_sec += 100; t->tm.cookie = t; t->tm.handler = mod_noop;
	iv_timer_register(&t->tm); iv_timer_unregister(&t->tm);
	close(t->pfd[0]); close(t->pfd[1]);
}
static struct iv_tls_user mod_tls_user = { .sizeof_state = sizeof(struct mod_tls), .init_thread = mod_init_thread, .deinit_thread = mod_deinit_thread };

/* ------------------------------------------------------------------ measurements */
static int fd_set_snapshot(unsigned char *bits, int nbits)
{
	memset(bits, 0, nbits / 8);
	DIR *d = opendir("/proc/self/fd");
	int dfd = dirfd(d), n = 0;
	struct dirent *e;
	while ((e = readdir(d))) { if (e->d_name[0] == '.') continue; int fd = atoi(e->d_name); if (fd == dfd || fd >= nbits) continue; bits[fd / 8] |= 1 << (fd % 8); n++; }
	closedir(d);
	return n;
}
static int thread_count(void)
{
	DIR *d = opendir("/proc/self/task"); int n = 0; struct dirent *e;
	while ((e = readdir(d))) if (e->d_name[0] != '.') n++;
	closedir(d);
	return n;
}

/* ------------------------------------------------------------------ the program of one cycle */
static size_t mark;
extern size_t ch_used(void);
void ch_seek(size_t pos);

struct cyc {
	struct iv_fd *fds[4]; int pfd[4][2]; int nfd; int fd_calls;
	struct iv_timer **timers; int ntimers, fired;
	struct iv_task *task; int task_runs;
	struct iv_event *ev; struct iv_event_raw *raw; int ev_runs, raw_runs;
	struct iv_signal *sig; struct iv_inotify *ino;
	struct iv_work_pool *pool; struct iv_work_item *items; int nitems, done;
	struct iv_timer far_timer; int ticks;
	int want_kernel_timer;
};
static __thread struct cyc *C;

static void maybe_finish(void);
static void fd_in(void *cookie)
{
	int k = (int)(intptr_t)cookie; char b[64];
	C->fd_calls++;
	if (C->want_kernel_timer && k == 0 && C->ticks < 8) { C->ticks++; return; }    /* stays readable: same deadline seen again and again */
	ssize_t r = read(C->pfd[k][0], b, sizeof b); (void)r;
	maybe_finish();
}
static void timer_cb(void *c) { (void)c; C->fired++; maybe_finish(); }
static void task_cb(void *c) { (void)c; C->task_runs++; maybe_finish(); }
static void ev_cb(void *c) { (void)c; C->ev_runs++; maybe_finish(); }
static void raw_cb(void *c) { (void)c; C->raw_runs++; maybe_finish(); }
static void sig_cb(void *c) { (void)c; }
static void work_fn(void *c) { (void)c; }
static void comp_fn(void *c) { (void)c; C->done++; maybe_finish(); }
static void far_cb(void *c) { (void)c; }
static void set_bands(void *c, int a, int b) { (void)c; (void)a; (void)b; }

static int all_done;
static void teardown(void)
{
	struct cyc *c = C;
	for (int k = 0; k < c->nfd; k++) if (c->fds[k]) { iv_fd_unregister(c->fds[k]); free(c->fds[k]); c->fds[k] = NULL; close(c->pfd[k][0]); close(c->pfd[k][1]); }
	for (int k = 0; k < c->ntimers; k++) if (c->timers[k]) { if (iv_timer_registered(c->timers[k])) iv_timer_unregister(c->timers[k]); free(c->timers[k]); c->timers[k] = NULL; }
	if (c->task) { if (iv_task_registered(c->task)) iv_task_unregister(c->task); free(c->task); c->task = NULL; }
	if (c->ev) { iv_event_unregister(c->ev); free(c->ev); c->ev = NULL; }
	if (c->raw) { iv_event_raw_unregister(c->raw); free(c->raw); c->raw = NULL; }
	if (c->sig) { iv_signal_unregister(c->sig); free(c->sig); c->sig = NULL; }
	if (c->ino) { iv_inotify_unregister(c->ino); free(c->ino); c->ino = NULL; }
	if (c->pool) { iv_work_pool_put(c->pool); free(c->pool); c->pool = NULL; }
	if (iv_timer_registered(&c->far_timer)) iv_timer_unregister(&c->far_timer);
}
static void maybe_finish(void)
{
	struct cyc *c = C;
	if (all_done) return;
	if (c->fired < c->ntimers) return;
	if (c->task && !c->task_runs) return;
	if (c->ev && !c->ev_runs) return;
	if (c->raw && !c->raw_runs) return;
	if (c->done < c->nitems) return;
	if (c->want_kernel_timer && c->ticks < 8) return;
	all_done = 1;
	teardown();
}

static void pump_session(void)
{
	/* a relay that leaves a buffer in the per-thread cache (completed) and one destroyed with data buffered */
	for (int variant = 0; variant < 2; variant++) {
		int in[2], out[2];
		if (pipe(in) < 0 || pipe(out) < 0) return;
		fcntl(in[0], F_SETFL, O_NONBLOCK); fcntl(out[1], F_SETFL, O_NONBLOCK);
		if (variant) fcntl(out[1], F_SETPIPE_SZ, 4096);
		struct iv_fd_pump p;
		IV_FD_PUMP_INIT(&p);
		p.from_fd = in[0]; p.to_fd = out[1]; p.cookie = NULL; p.set_bands = set_bands; p.flags = 0;
		iv_fd_pump_init(&p);
		char buf[20000]; memset(buf, 'p', sizeof buf);
		ssize_t r = write(in[1], buf, variant ? sizeof buf : 100); (void)r;
		close(in[1]);
		for (int k = 0; k < 4; k++) if (iv_fd_pump_pump(&p) <= 0) break;
		iv_fd_pump_destroy(&p);
		close(in[0]); close(out[0]); close(out[1]);
	}
	vz_label(L_PUMP);
}

static void run_cycle_body(int method_poll_family)
{
	struct cyc cyc; memset(&cyc, 0, sizeof cyc);
	C = &cyc; all_done = 0;
	ch_seek(mark);
	iv_init();
	struct cyc *c = C;
	c->want_kernel_timer = ch_n(2);
	c->nfd = 1 + ch_n(3);
	if (c->want_kernel_timer) vz_label(L_KERNEL_TIMER);
	for (int k = 0; k < c->nfd; k++) {
		if (socketpair(AF_UNIX, SOCK_STREAM, 0, c->pfd[k]) < 0) vz_inconclusive("socketpair");
		c->fds[k] = malloc(sizeof *c->fds[k]);
		IV_FD_INIT(c->fds[k]); c->fds[k]->fd = c->pfd[k][0]; c->fds[k]->cookie = (void *)(intptr_t)k; c->fds[k]->handler_in = fd_in;
		if (ch_n(3) == 0) { if (iv_fd_register_try(c->fds[k])) FAILC("register-try", "register_try failed on a socket"); } else iv_fd_register(c->fds[k]);
		int fl = fcntl(c->pfd[k][0], F_GETFL), cl = fcntl(c->pfd[k][0], F_GETFD);
		if (!(fl & O_NONBLOCK) || !(cl & FD_CLOEXEC)) FAILC("fd-flags", "registered descriptor: O_NONBLOCK=%d FD_CLOEXEC=%d", !!(fl & O_NONBLOCK), !!(cl & FD_CLOEXEC));
		ssize_t r = write(c->pfd[k][1], "x", 1); (void)r;
	}
	if (ch_n(3) == 0) {   /* a failing registration leaves nothing behind */
		struct iv_fd bad; IV_FD_INIT(&bad); int fdn = open("/dev/null", O_RDONLY); close(fdn); bad.fd = fdn; bad.handler_in = fd_in;
		if (iv_fd_register_try(&bad) == 0) iv_fd_unregister(&bad);
		vz_label(L_FAILED_TRY);
	}
	c->ntimers = (int[]){ 1, 5, 130, 300, 17000 }[ch_n(vz_param_l("big", 0) ? 5 : 4)];
	if (c->ntimers > 16384) vz_label(L_BIG_TIMERS);
	c->timers = calloc(c->ntimers, sizeof *c->timers);
	iv_validate_now();
	for (int k = 0; k < c->ntimers; k++) {
		c->timers[k] = malloc(sizeof **c->timers);
		IV_TIMER_INIT(c->timers[k]); c->timers[k]->expires = iv_now; c->timers[k]->expires.tv_nsec = (c->timers[k]->expires.tv_nsec / 2 + k) % 1000000000; c->timers[k]->handler = timer_cb;
		iv_timer_register(c->timers[k]);
	}
	IV_TIMER_INIT(&c->far_timer); c->far_timer.expires = iv_now; c->far_timer.expires.tv_sec += 3600; c->far_timer.handler = far_cb;
	iv_timer_register(&c->far_timer);
	if (ch_n(2)) { c->task = malloc(sizeof *c->task); IV_TASK_INIT(c->task); c->task->handler = task_cb; iv_task_register(c->task); }
	if (ch_n(2)) { c->ev = malloc(sizeof *c->ev); IV_EVENT_INIT(c->ev); c->ev->handler = ev_cb; iv_event_register(c->ev); iv_event_post(c->ev); vz_label(L_EVENTS); }
	if (ch_n(2)) { c->raw = malloc(sizeof *c->raw); IV_EVENT_RAW_INIT(c->raw); c->raw->handler = raw_cb; iv_event_raw_register(c->raw); iv_event_raw_post(c->raw); vz_label(L_RAW); }
	if (ch_n(3) == 0) { c->sig = malloc(sizeof *c->sig); IV_SIGNAL_INIT(c->sig); c->sig->signum = SIGUSR1; c->sig->flags = IV_SIGNAL_FLAG_THIS_THREAD; c->sig->handler = sig_cb; iv_signal_register(c->sig); vz_label(L_SIGNAL); }
	if (ch_n(3) == 0) { c->ino = malloc(sizeof *c->ino); memset(c->ino, 0xA5, sizeof *c->ino); IV_INOTIFY_INIT(c->ino); if (iv_inotify_register(c->ino)) { free(c->ino); c->ino = NULL; } else vz_label(L_INOTIFY); }
	if (ch_n(2)) {
		c->pool = malloc(sizeof *c->pool); IV_WORK_POOL_INIT(c->pool); c->pool->max_threads = 1 + ch_n(3); c->pool->cookie = NULL;
		if (iv_work_pool_create(c->pool)) FAILC("pool-create", "iv_work_pool_create failed");
		c->nitems = 1 + ch_n(4); c->items = calloc(c->nitems, sizeof *c->items);
		for (int k = 0; k < c->nitems; k++) { IV_WORK_ITEM_INIT(&c->items[k]); c->items[k].work = work_fn; c->items[k].completion = comp_fn; iv_work_pool_submit_work(c->pool, &c->items[k]); }
		vz_label(L_POOL);
	}
	if (ch_n(2)) pump_session();
	if (method_poll_family) vz_label(L_POLL_ARRAYS);
	iv_main();
	if (!all_done) FAILC("early-return", "iv_main returned before the cycle's work was done");
	free(c->timers); free(c->items);
}
static int cycle_kind[8], ncyc;
static void *thread_cycle(void *arg)
{
	int kind = (int)(intptr_t)arg;
	run_cycle_body(0);
	if (kind == 1) { iv_deinit(); vz_label(L_THREAD_DEINIT); }
	else vz_label(L_THREAD_NO_DEINIT);            /* the thread exits with its loop state still allocated */
	return NULL;
}

static const char *excl[4] = { "", "epoll-timerfd", "epoll-timerfd epoll", "epoll-timerfd epoll ppoll" };

/* libc keeps the stacks (and the TLS vectors allocated with them) of finished threads in a cache and hands them to later
 * threads; a thread that is created while the previous one has not quite left yet gets a fresh stack instead, which shows
 * up as +288 allocated bytes although nothing leaked.  Fill that cache once, with more threads than any cycle runs at a
 * time, before the reference measurement. */
static pthread_barrier_t warm_bar;
static void *warm_thread(void *a) { (void)a; pthread_barrier_wait(&warm_bar); return NULL; }
static void warm_thread_cache(void)
{
	enum { NW = 12 };
	pthread_attr_t at; pthread_attr_init(&at); pthread_attr_setstacksize(&at, 1 << 20); pthread_setattr_default_np(&at); pthread_attr_destroy(&at);
	pthread_t t[NW]; int n = 0;
	pthread_barrier_init(&warm_bar, NULL, NW + 1);
	for (int i = 0; i < NW; i++) if (pthread_create(&t[n], NULL, warm_thread, NULL) == 0) n++;
	if (n != NW) vz_inconclusive("pthread_create");
	pthread_barrier_wait(&warm_bar);
	for (int i = 0; i < n; i++) pthread_join(t[i], NULL);
	pthread_barrier_destroy(&warm_bar);
}

/* ------------------------------------------------------------------ flood: far more submissions to one pool than any counter width assumed
 * (param flood=N): N items through one pool with a bounded number in flight, each must run once in a worker and complete once
 * in the owner, and the loop must end after the pool is released.  Free-running threads; a pool that stops making progress is
 * seen as the loop spinning (CPU budget) or blocking for good (wall-clock: inconclusive). */
static struct iv_work_pool fl_pool; static struct iv_work_item *fl_items; static unsigned char *fl_work, *fl_comp;
static long fl_n, fl_submitted, fl_completed, fl_window; static pthread_t fl_owner;
static void fl_work_fn(void *c) { long i = (long)(intptr_t)c; if (pthread_equal(pthread_self(), fl_owner)) vz_fail("C12", "work-in-owner", "flood: work function of item %ld ran in the owner thread", i); if (fl_work[i] < 255) fl_work[i]++; }
static int *fl_slot;
static void fl_submit(long slot)
{
	long i = fl_submitted++;
	fl_slot[i] = (int)slot;
	struct iv_work_item *w = &fl_items[slot];      /* the struct of an item whose completion is running is used for the next one */
	IV_WORK_ITEM_INIT(w); w->cookie = (void *)(intptr_t)i; w->work = fl_work_fn; w->completion = NULL;
	extern void fl_comp_fn(void *c); w->completion = fl_comp_fn;
	iv_work_pool_submit_work(&fl_pool, w);
}
void fl_comp_fn(void *c)
{
	long i = (long)(intptr_t)c;
	if (fl_comp[i] < 255) fl_comp[i]++;
	if (fl_work[i] != 1) vz_fail("C12", "completion-before-work", "flood: completion of item %ld with its work function run %d times", i, fl_work[i]);
	fl_completed++;
	if (fl_submitted < fl_n) fl_submit(fl_slot[i]);
	else if (fl_completed == fl_n) iv_work_pool_put(&fl_pool);
}
static void run_flood(long n)
{
	int method = ch_n(4);
	setenv("IV_EXCLUDE_POLL_METHOD", excl[method], 1);
	fl_n = n + ch_n(4000); fl_window = 1 + (long[]){ 1, 7, 500, 3000 }[ch_n(4)];
	fl_items = calloc(fl_window, sizeof *fl_items); fl_work = calloc(fl_n, 1); fl_comp = calloc(fl_n, 1); fl_slot = calloc(fl_n, sizeof *fl_slot);
	fl_owner = pthread_self();
	vz_log("flood: %ld items through one pool, at most %ld in flight", fl_n, fl_window);
	vz_hash_u(0x7000 + method); vz_hash_u(fl_n); vz_hash_u(fl_window);
	iv_set_fatal_msg_handler(fatal_handler);
	iv_init();
	IV_WORK_POOL_INIT(&fl_pool); fl_pool.max_threads = 1 + ch_n(4); fl_pool.cookie = NULL;
	if (iv_work_pool_create(&fl_pool)) vz_inconclusive("pool create");
	for (long k = 0; k < fl_window && fl_submitted < fl_n; k++) fl_submit(k);
	iv_main();
	iv_deinit();
	for (long i = 0; i < fl_n; i++) if (fl_work[i] != 1 || fl_comp[i] != 1) { vz_fail("C12", "flood-item", "item %ld of %ld: work function ran %d times, completion %d times (loop ended)", i, fl_n, fl_work[i], fl_comp[i]); break; }
	vz_count(0, fl_n);
	vz_label(L_FLOOD); vz_nontrivial();
}

void target_run(void)
{
	if (vz_param_l("flood", 0) > 0) { run_flood(vz_param_l("flood", 0)); return; }
	int method = ch_n(4);
	setenv("IV_EXCLUDE_POLL_METHOD", excl[method], 1);
	vz_label(L_M0 + method);
	ncyc = 4 + ch_n(5);
	cycle_kind[0] = 0; cycle_kind[1] = 1 + ch_n(2);      /* warm-up: one main-thread cycle and one thread cycle */
	for (int k = 2; k < ncyc; k++) cycle_kind[k] = ch_n(3);
	mark = ch_used();
	vz_hash_u(method);
	iv_set_fatal_msg_handler(fatal_handler);
	signal(SIGPIPE, SIG_IGN);
	warm_thread_cache();
	int with_module = ch_n(2);
	if (with_module) { iv_tls_user_register(&mod_tls_user); vz_label(L_TLS_MODULE); }
	unsigned char fd0[128], fd1[128];
	size_t base_bytes = 0; int base_threads = 0; int nfd0 = 0;
	for (int k = 0; k < ncyc; k++) {
		if (k == 0) { nfd0 = fd_set_snapshot(fd0, 1024); }
		vz_log("cycle %d: %s", k, cycle_kind[k] == 0 ? "main thread" : cycle_kind[k] == 1 ? "thread with iv_deinit" : "thread exiting without iv_deinit");
		vz_hash_u(0x100 + cycle_kind[k]);
		if (cycle_kind[k] == 0) { run_cycle_body(method >= 2); iv_deinit(); vz_label(L_MAIN_CYCLES); }
		else { pthread_t t; if (pthread_create(&t, NULL, thread_cycle, (void *)(intptr_t)cycle_kind[k])) vz_inconclusive("pthread_create"); pthread_join(t, NULL); }
		int nfd1 = fd_set_snapshot(fd1, 1024);
		if (nfd1 != nfd0 || memcmp(fd0, fd1, sizeof fd0)) {
			char list[200] = ""; int n = 0;
			for (int f = 0; f < 1024 && n < 180; f++) if ((fd1[f / 8] ^ fd0[f / 8]) & (1 << (f % 8))) n += snprintf(list + n, sizeof list - n, "%d ", f);
			FAILC("descriptor-leak", "after cycle %d (%s) the set of open descriptors differs from before iv_init: %s", k, cycle_kind[k] ? "thread" : "main", list);
		}
		/* worker threads of a pool are joined by the library before iv_main returns; give the kernel a moment to retire them */
		int tc = thread_count();
		for (int w = 0; w < 200 && tc > 1; w++) { usleep(500); tc = thread_count(); }
		size_t bytes = __sanitizer_get_current_allocated_bytes();
		vz_log("  after cycle %d: %zu bytes allocated, %d descriptors, %d threads", k, bytes, nfd1, tc);
		if (k == 1) { base_bytes = bytes; base_threads = tc; }
		if (k >= 2) {
			/* memory of a thread that has just been joined or has detached itself is handed back by libc a little later
			 * (stack cache, TLS blocks): a difference that goes away by waiting is not a leak, one that stays is */
			for (int w = 0; w < 200 && bytes != base_bytes; w++) { usleep(1000); bytes = __sanitizer_get_current_allocated_bytes(); }
			if (bytes != base_bytes) FAILC("memory-growth", "after cycle %d (%s) %zu bytes are allocated, %zu after the warm-up cycles: %+ld bytes per cycle are not released", k, cycle_kind[k] ? "thread" : "main", bytes, base_bytes, (long)bytes - (long)base_bytes);
			if (tc != base_threads) FAILC("thread-leak", "after cycle %d there are %d threads, %d after the warm-up cycles", k, tc, base_threads);
		}
	}
	if (with_module && (atomic_load(&mod_inits) < ncyc || atomic_load(&mod_deinits) != atomic_load(&mod_inits)))
		FAILC("tls-hooks-unpaired", "%d loop life cycles (plus the library's own threads): the module's ->init_thread ran %d times, its ->deinit_thread %d times", ncyc, atomic_load(&mod_inits), atomic_load(&mod_deinits));
	if (__lsan_do_recoverable_leak_check()) FAILC("lsan-leak", "LeakSanitizer reports unreachable memory after the cycles");
	vz_count(0, ncyc);
	int no_deinit = vz_has_label(L_THREAD_NO_DEINIT);
	if (ncyc >= 3 && no_deinit && method >= 2) vz_nontrivial();
	if (ncyc >= 3 && no_deinit && (vz_has_label(L_POOL) || vz_has_label(L_PUMP) || vz_has_label(L_KERNEL_TIMER))) vz_nontrivial();
}

size_t target_gen(uint64_t seed, uint64_t index, uint8_t *buf, size_t cap)
{
	struct vz_rng r; rng_seed(&r, seed, index);
	return vz_gen_default(&r, buf, cap, 32, 120);
}
