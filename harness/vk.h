/*
 * vk -- the virtual kernel boundary: link-time interposition (-Wl,--wrap) of the clock, the
 * wait primitives, timerfd and the optional system calls.  Nothing ever sleeps in real time.
 */
#ifndef VK_H
#define VK_H
#include <stdint.h>
#include <time.h>
#include <poll.h>
#include <sys/epoll.h>
#include <sys/types.h>

#define VK_NS 1000000000ll
#define VK_INF INT64_MAX

enum vk_prim { VK_EPOLL_WAIT, VK_EPOLL_PWAIT2, VK_POLL, VK_PPOLL, VK_NPRIM };
extern const char *vk_prim_name[VK_NPRIM];

/* system calls whose failure can be injected (sysfault hook) */
enum vk_sys {
	VKS_EPOLL_CREATE1, VKS_EPOLL_CREATE, VKS_EPOLL_PWAIT2, VKS_TIMERFD_CREATE, VKS_PPOLL,
	VKS_EVENTFD2, VKS_EVENTFD, VKS_PIPE, VKS_PIPE2, VKS_EPOLL_CTL, VKS_EPOLL_WAIT, VKS_POLL,
	VKS_TIMERFD_SETTIME, VKS_SPLICE, VKS_INOTIFY_INIT, VKS_N
};
extern const char *vk_sys_name[VKS_N];

struct vk_wait {
	int prim;
	unsigned long seq;          /* per-thread ordinal of this wait call (all primitives) */
	unsigned long prim_seq;     /* ordinal among calls of this primitive */
	int64_t timeout_ns;         /* requested relative timeout, -1 = infinite */
	int64_t entry_now;          /* virtual time at entry */
	int64_t deadline;           /* absolute wake-up instant implied by timeout and armed timerfds, VK_INF = none */
	int64_t timeout_deadline;   /* the part due to the timeout argument alone */
	int tfd_armed; int64_t tfd_deadline;
	int epfd;                   /* epoll fd or -1 */
	struct pollfd *pfds; int npfds;  /* poll family */
	int maxevents;
};

enum { VK_RETRY = 0, VK_SLEEP = 1 };

struct vk_hooks {
	/* increment added to virtual time right before a clock reading */
	int64_t (*clock_incr)(void);
	/* errno to inject on this call of system call `sys` (0 = none). k = ordinal (0-based) of the call */
	int (*sysfault)(int sys, unsigned long k);
	/* wait call is being entered (after fault decision): snapshot ground truth, entry oracles */
	void (*wait_entry)(struct vk_wait *w);
	/* zero-timeout real poll returned nothing and timeout != 0: loop would block.  Run the
	 * blocking-point oracles, maybe perform one environment event.  Return VK_RETRY to re-poll
	 * (an event was performed; hook may have advanced vk time) or VK_SLEEP to let time pass to
	 * the deadline.  With deadline == VK_INF and VK_SLEEP, quiescent() is called. */
	int (*wait_block)(struct vk_wait *w);
	void (*quiescent)(struct vk_wait *w);
	/* the wait returns n >= 0 events to the library (n == 0: timeout expired) */
	void (*wait_return)(struct vk_wait *w, int n);
	/* the wait returns -1/errno (injected) */
	void (*wait_error)(struct vk_wait *w, int err);
	/* notification that an emulated timerfd was (re)programmed */
	void (*tfd_set)(int fd, int64_t deadline);
	/* an epoll_ctl call is about to be made / was made (engine B yield points) */
	void (*epoll_ctl_pre)(int epfd, int op, int fd);
	/* is a poll(.., 0) call made right now a probe (not the loop's wait)?  NULL = always a probe */
	int (*poll_is_probe)(void);
	/* read()/write() issued by library or harness code (is_write, fd, size) -- before and after the real call */
	void (*io_pre)(int is_write, int fd, size_t n);
	void (*io_post)(int is_write, int fd, ssize_t result);
	void (*read_post)(int fd, void *buf, ssize_t result);   /* what a read() handed to its caller */
	void (*close_failed)(int fd, int err);                  /* a close() call failed (EBADF: the descriptor was not open) */
};

extern struct vk_hooks vk_hooks;
extern int vk_active;              /* wrappers pass through while 0 */

void    vk_reset(void);            /* virtual time := 1000 s, forget timerfds, counters */
int64_t vk_now(void);
void    vk_advance_to(int64_t t);  /* fires emulated timerfds that become due */
void    vk_advance(int64_t dt);
int64_t vk_last_reading(void);     /* last clock value handed to the calling thread (-1: none yet) */
unsigned long vk_wait_count(int prim);
unsigned long vk_sys_count(int sys);
int64_t vk_tfd_deadline_any(void); /* earliest armed emulated timerfd deadline or VK_INF */
int     vk_tfd_count(void);
int     vk_is_tfd(int fd);
/* saturating: relative timeouts of centuries (a timer parked in the far future) must not overflow the 64-bit nanosecond clock */
static inline int64_t vk_ts_ns(const struct timespec *ts) { if (ts->tv_sec > 4000000000ll) return 4000000000ll * VK_NS; if (ts->tv_sec < -4000000000ll) return -4000000000ll * VK_NS; return (int64_t)ts->tv_sec * VK_NS + ts->tv_nsec; }
static inline struct timespec vk_ns_ts(int64_t ns) { struct timespec t = { ns / VK_NS, ns % VK_NS }; return t; }

/* real primitives for harness use */
int __real_poll(struct pollfd *, nfds_t, int);
int __real_clock_gettime(clockid_t, struct timespec *);

#endif
