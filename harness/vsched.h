/*
 * sched -- engine B: real pthreads serialised by a baton.  Exactly one scenario thread runs at a
 * time; at every interposed synchronisation point the running thread consults the schedule stream
 * (ch2) and may hand the baton over.  Virtual time (vk) advances only when nobody is runnable.
 */
#ifndef SCHED_H
#define SCHED_H
#include "vk.h"

#define SCHED_MAXT 24

void sched_init(void);                       /* calling thread becomes scenario thread 0 and holds the baton */
void sched_finish(void);                     /* thread 0: wait (under the schedule) until every other thread has finished */
int  sched_self(void);                       /* slot of the calling thread, -1 if not a scenario thread */
void sched_point(const char *why);           /* plain yield point */
void sched_yield_to_others(const char *why); /* hand the baton to some other runnable thread, if there is one */
int  sched_spawn(void *(*fn)(void *), void *arg);   /* create a scenario thread (returns slot) */
int  sched_block_wait(struct vk_wait *w);    /* vk wait_block hook body: returns VK_RETRY once runnable / deadline reached */
int  sched_nthreads(void);
int  sched_thread_finished(int slot);
int  sched_join_count(int slot);             /* how many times pthread_join was called on that thread */
int  sched_slot_of(pthread_t t);
int  sched_other_runnable(void);     /* some other thread could take the baton right now */
int  sched_all_others_parked(void);  /* no other thread can be inside a library call right now */
extern unsigned long sched_step;             /* global logical clock: incremented at every yield point */
extern unsigned long sched_switches;
extern int sched_active;
/* called (in the context of the thread that detects it) when nobody can run and no deadline is pending */
extern void (*sched_on_deadlock)(const char *state_description);
/* called when all threads are blocked and time is about to advance, and when a thread finishes (for quiescence oracles) */
extern void (*sched_on_idle)(void);
/* label hook: a context switch happened at yield point `why` from thread a to thread b */
extern void (*sched_on_switch)(const char *why, int from, int to);
/* called in the running thread at every yield point, before the scheduling decision */
extern void (*sched_on_point)(const char *why);
extern int sched_fail_next_create;       /* the next pthread_create of a scenario thread fails with EAGAIN */
const char *sched_describe(void);
void sched_io_pre(int is_write, int fd, size_t n);      /* install as vk_hooks.io_pre / io_post: yield points around descriptor I/O */
void sched_io_post(int is_write, int fd, ssize_t r);

#endif
