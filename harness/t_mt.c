/*
 * t_mt -- engine B scenarios: owner loops + poster threads + work pool + iv_thread children under
 * generated schedules (sched.c) and the virtual kernel (vk.c).  Serves C08, C12, C13 and the
 * threaded part of C01/C09.
 *
 * Stream 1 (ch_*) = program, stream 2 (ch2_*) = schedule.
 */
#ifndef _GNU_SOURCE
#define _GNU_SOURCE
#endif
#include "vfz.h"
#include "vk.h"
#include "vsched.h"
#include <errno.h>
#include <fcntl.h>
#include <pthread.h>
#include <signal.h>
#include <stdio.h>
#include <stdlib.h>
#include <string.h>
#include <unistd.h>
#include <iv.h>
#include <iv_event.h>
#include <iv_event_raw.h>
#include <iv_thread.h>
#include <iv_work.h>

const char *target_name = "mt";

enum { L_SWITCH_IN_POST, L_SWITCH_OWNER_DETACH, L_CROSS_POST, L_SELF_POST, L_POST_FROM_HANDLER, L_UNREG_PENDING, L_TWO_OWNERS, L_POOL,
       L_SUBMIT_ALL_BUSY, L_SUBMIT_IDLE_EXPIRED, L_SUBMIT_BEFORE_FIRST_RUN, L_CONTINUATION, L_PUT_WHILE_BUSY, L_PUT_WHILE_STARTING, L_PUT_WHILE_IDLE,
       L_IDLE_TIMEOUT_DEATH, L_IVTHREAD, L_IVTHREAD_NODEINIT, L_IVTHREAD_PEXIT, L_M0, L_M1, L_M2, L_M3, L_RAW_KICK, L_EVENTFD_FALLBACK,
       L_FD_UNREG_IN_EVENT, L_POOL_REUSE, L_SUBMIT_FROM_COMPLETION, L_TIME_PASSED_10S, L_BURST, L_RAW_CROSS_POST, L_RAW_BIG_BURST, L_LOCAL_WORK, L_PUT_FROM_COMPLETION, L_IVTHREAD_CREATE_FAILS, L_POOL_CREATE_FAILS, L_EVENT_REG_EMFILE, L_ITEM_STRUCT_REUSED, L_BUSY_OWNER, L_OWNER_STALLS, L_POST_THEN_UNREG_PENDING };

#define FAILP(prop, tag, ...) vz_fail(prop, tag, __VA_ARGS__)
static void fail_any(const char *tag, const char *fmt, ...)
{
	char msg[700]; va_list ap; va_start(ap, fmt); vsnprintf(msg, sizeof msg, fmt, ap); va_end(ap);
	char p[8]; strncpy(p, vz_prop, 3); p[3] = 0;
	vz_fail(p, tag, "%s", msg);
}
static void fatal_handler(const char *msg)
{
	char tag[64] = "fatal."; int n = 6;
	for (const char *p = msg; *p && *p != ':' && n < 60; p++) tag[n++] = (*p == ' ') ? '_' : *p;
	tag[n] = 0;
	fail_any(tag, "iv_fatal: %s", msg);
	_exit(3);
}

/* ------------------------------------------------------------------ model */
#define MAXOWN 2
#define MAXEV 5           /* per owner: [0] = stop event, [1..2] shared, [3..4] private */
#define MAXRAW 2
#define MAXITEM 48
#define MAXCHILD 6
#define MAXPOSTER 3

static unsigned long lclock;    /* logical clock ordering post starts and handler entries */

struct mev {
	struct iv_event *iv; int owner, idx; int registered;
	int idle_rounds;       /* ... the same, counted in rounds of the owner's loop (runs of its busy task) */
	int idle_polls;        /* kernel polls the owner made with this event's post completed, undelivered, and nobody else able to run */
	unsigned long last_completed_post_start, last_handler_entry;
	long nposts_started, nhandled;
	int inflight;          /* posts currently inside iv_event_post */
};
struct mraw {
	struct iv_event_raw *iv; int owner, idx, registered;
	unsigned long last_completed_post_start, last_handler_entry;
	long nposts;
};
struct mfd { struct iv_fd *iv; int fd, peer, registered; unsigned gen; };
struct owner {
	int slot;                       /* scheduler slot of the owner thread */
	struct mev ev[MAXEV];
	struct mraw raw[MAXRAW];
	struct mfd fds[2];
	struct iv_timer shutdown_timer; int shutdown_done;
	struct iv_timer act_timer[3]; int act_busy[3];
	int stops_seen, in_main, nested;
	int inflight;                   /* iv_event_post calls targeting this owner that have not returned yet */
	long budget;
	struct iv_task busy; int busy_left, busy_inited;   /* a task that keeps itself registered for a while: the loop polls with a zero timeout */
};
static struct owner own[MAXOWN];
static int nown, nposters, posters_done;
static int cfg_method;
static int eventfd_mode;   /* 0 eventfd2, 1 old eventfd, 2 pipe */
static __thread int emfile_armed;   /* eventfd2() of this thread fails with EMFILE */

struct item { struct iv_work_item w; struct iv_work_item *wp; int id, submitted, work_runs, comp_runs, work_thread, work_returned, is_cont, local; };
static struct item items[MAXITEM]; static int nitems;
static struct iv_work_pool *pool; static int pool_alive, pool_put_called, pool_max, pool_generation;
static int running_now, max_running_seen;
static int harness_threads;          /* threads created by the harness itself or through iv_thread_create by the harness */
static int pool_threads_requested;  /* pool threads the library has created so far (counted at thread creation) */
static int cont_inflight;          /* workers currently inside iv_work_pool_submit_continuation (uses the pool struct) */
static int start_count[SCHED_MAXT], stop_count[SCHED_MAXT];
static int worker_slots[SCHED_MAXT], nworkers;
struct child { int slot, mode, created; };
static struct child children[MAXCHILD]; static int nchildren;
static int items_budget;

/* ------------------------------------------------------------------ events */
static void ev_handler(void *cookie);
static void raw_handler(void *cookie);
static void owner_actions(struct owner *o, int n);
static void act_timer_cb(void *cookie);

static void ev_register(struct owner *o, int i)
{
	struct mev *e = &o->ev[i];
	if (e->iv) vz_log("[T%d] (same struct as before, not initialised again)", sched_self());   /* kept by ev_unregister */
	else { e->iv = malloc(sizeof *e->iv); memset(e->iv, 0xA5, sizeof *e->iv); IV_EVENT_INIT(e->iv); }
	e->iv->cookie = e; e->iv->handler = ev_handler;
	e->owner = (int)(o - own); e->idx = i;
	if (iv_event_register(e->iv)) fail_any("event-register-failed", "iv_event_register failed");
	e->registered = 1; e->last_completed_post_start = e->last_handler_entry = 0; e->nposts_started = e->nhandled = 0; e->inflight = 0;
	vz_log("[T%d] owner%d: register event %d", sched_self(), e->owner, i);
}
static void ev_unregister(struct owner *o, int i)
{
	struct mev *e = &o->ev[i];
	if (e->last_completed_post_start > e->last_handler_entry) vz_label(L_UNREG_PENDING);
	vz_log("[T%d] owner%d: unregister event %d", sched_self(), e->owner, i);
	e->registered = 0;
	iv_event_unregister(e->iv);
	/* "must have been initialised by IV_EVENT_INIT" - once: the caller may keep the struct and register it again as it is */
	if (!own[e->owner].shutdown_done && ch_n(3) == 0) return;
	memset(e->iv, 0x5A, sizeof *e->iv); free(e->iv); e->iv = NULL;
}
static void ev_post(struct mev *e)
{
	unsigned long start = ++lclock;
	int me = sched_self();
	e->nposts_started++; e->inflight++; own[e->owner].inflight++;
	if (me == own[e->owner].slot) vz_label(L_SELF_POST); else vz_label(L_CROSS_POST);
	vz_log("[T%d] post owner%d.ev%d (t=%lu)", me, e->owner, e->idx, start);
	vz_hash_u(0x100 + e->owner * 8 + e->idx);
	unsigned long sw0 = sched_switches;
	iv_event_post(e->iv);
	if (sched_switches != sw0) vz_label(L_SWITCH_IN_POST);
	e->inflight--; own[e->owner].inflight--;
	if (e->registered && start > e->last_completed_post_start) e->last_completed_post_start = start;
}
static void ev_handler(void *cookie)
{
	struct mev *e = cookie;
	struct owner *o = &own[e->owner];
	int me = sched_self();
	unsigned long now = ++lclock;
	vz_log("[T%d] handler owner%d.ev%d (t=%lu)", me, e->owner, e->idx, now);
	if (!e->registered) { FAILP("C01", "callback-after-unregister", "event handler ran after iv_event_unregister returned"); fail_any("event-callback-not-registered", "handler of unregistered event ran"); }
	if (me != o->slot) FAILP("C08", "wrong-thread", "handler of owner%d.ev%d ran in thread T%d, owner is T%d", e->owner, e->idx, me, o->slot);
	if (!o->in_main) FAILP("C07", "callback-outside-main", "event handler outside iv_main");
	e->nhandled++;
	if (e->nhandled > e->nposts_started) FAILP("C08", "over-delivered", "owner%d.ev%d handled %ld times, only %ld posts were made", e->owner, e->idx, e->nhandled, e->nposts_started);
	e->last_handler_entry = now; e->idle_polls = 0; e->idle_rounds = 0;
	if (e->idx == 0) {
		/* stop event: a poster has finished */
		o->stops_seen++;
	}
	owner_actions(o, 2);
}

static void raw_register(struct owner *o, int i)
{
	struct mraw *r = &o->raw[i];
	r->iv = malloc(sizeof *r->iv); memset(r->iv, 0xA5, sizeof *r->iv);
	IV_EVENT_RAW_INIT(r->iv);
	r->iv->cookie = r; r->iv->handler = raw_handler; r->owner = (int)(o - own); r->idx = i;
	if (iv_event_raw_register(r->iv)) fail_any("raw-register-failed", "iv_event_raw_register failed");
	r->registered = 1; r->last_completed_post_start = r->last_handler_entry = 0;
}
static void raw_unregister(struct owner *o, int i)
{
	struct mraw *r = &o->raw[i];
	r->registered = 0;
	iv_event_raw_unregister(r->iv);
	memset(r->iv, 0x5A, sizeof *r->iv); free(r->iv); r->iv = NULL;
}
static void raw_post(struct mraw *r, int n)
{
	unsigned long start = ++lclock;
	int me = sched_self();
	if (me != own[r->owner].slot) vz_label(L_RAW_CROSS_POST);
	if (n > 1000) vz_label(L_RAW_BIG_BURST);
	vz_log("[T%d] raw post owner%d.raw%d x%d (t=%lu)", me, r->owner, r->idx, n, start);
	vz_hash_u(0x200 + r->owner * 8 + r->idx); vz_hash_u(n);
	if (!(fcntl(r->iv->event_wfd, F_GETFL) & O_NONBLOCK)) {
		FAILP("C09", "post-on-blocking-descriptor", "iv_event_raw_post would write to descriptor %d, which is in blocking mode (a burst larger than its buffer blocks the poster)", r->iv->event_wfd);
		fail_any("raw-post-on-blocking-descriptor", "raw event write descriptor %d is in blocking mode", r->iv->event_wfd);
	}
	sched_active = n > 64 ? 0 : sched_active;     /* long bursts run without yield points (they are the same call repeated) */
	for (int k = 0; k < n; k++) iv_event_raw_post(r->iv);
	sched_active = 1;
	r->nposts += n;
	if (r->registered && start > r->last_completed_post_start) r->last_completed_post_start = start;
}
static void raw_handler(void *cookie)
{
	struct mraw *r = cookie;
	struct owner *o = &own[r->owner];
	unsigned long now = ++lclock;
	vz_log("[T%d] raw handler owner%d.raw%d (t=%lu)", sched_self(), r->owner, r->idx, now);
	if (!r->registered) { FAILP("C01", "callback-after-unregister", "raw event handler ran after unregister"); fail_any("raw-callback-not-registered", "raw handler of unregistered object ran"); }
	if (sched_self() != o->slot) FAILP("C09", "wrong-thread", "raw handler ran in T%d, owner is T%d", sched_self(), o->slot);
	r->last_handler_entry = now;
	owner_actions(o, 1);
}

/* ------------------------------------------------------------------ fds of owner 0 (C01 across the event kick) */
static void fd_handler(void *cookie)
{
	struct mfd *f = cookie;
	if (!f->registered) { FAILP("C01", "callback-after-unregister", "fd handler ran after iv_fd_unregister returned"); fail_any("fd-callback-not-registered", "fd handler of unregistered fd ran"); }
	char buf[256]; ssize_t r = read(f->fd, buf, sizeof buf);
	vz_log("[T%d] fd handler fd=%d", sched_self(), f->fd);
	/* only this handler ever reads the pipe: if nothing is there, the kernel cannot have reported this descriptor readable */
	if (r < 0 && errno == EAGAIN) { FAILP("C03", "not-ready-at-poll", "fd handler ran for descriptor %d, which has never been readable since it was registered", f->fd);
					FAILP("C01", "stale-batch-entry", "fd handler ran for descriptor %d on behalf of a batch entry collected for its struct's previous registration", f->fd); }
}
static void fd_register(struct owner *o, int k)
{
	struct mfd *f = &o->fds[k];
	int p[2]; if (pipe(p) < 0) vz_inconclusive("pipe");
	f->fd = p[0]; f->peer = p[1];
	fcntl(f->peer, F_SETFL, O_NONBLOCK);
	f->iv = malloc(sizeof *f->iv); memset(f->iv, 0xA5, sizeof *f->iv);
	IV_FD_INIT(f->iv); f->iv->fd = f->fd; f->iv->cookie = f; f->iv->handler_in = fd_handler;
	iv_fd_register(f->iv);
	f->registered = 1;
}
static void fd_unregister(struct owner *o, int k)
{
	struct mfd *f = &o->fds[k];
	vz_log("[T%d] owner: unregister+free fd %d", sched_self(), f->fd);
	f->registered = 0;
	iv_fd_unregister(f->iv);
	memset(f->iv, 0x5A, sizeof *f->iv); free(f->iv); f->iv = NULL;
	close(f->fd); close(f->peer);
}

/* the same struct iv_fd moves on to another descriptor (from an event handler, possibly while an entry for the old
 * registration sits in the batch being processed) */
static void fd_move(struct owner *o, int k)
{
	struct mfd *f = &o->fds[k];
	vz_log("[T%d] owner: fd %d unregistered, same struct re-registered on a new pipe", sched_self(), f->fd);
	f->registered = 0;
	iv_fd_unregister(f->iv);
	close(f->fd); close(f->peer);
	int p[2]; if (pipe(p) < 0) vz_inconclusive("pipe");
	f->fd = p[0]; f->peer = p[1];
	fcntl(f->peer, F_SETFL, O_NONBLOCK);
	if (ch_n(2)) IV_FD_INIT(f->iv);
	f->iv->fd = f->fd; f->iv->cookie = f; f->iv->handler_in = fd_handler;
	iv_fd_register(f->iv);
	f->registered = 1;
}

/* ------------------------------------------------------------------ work pool */
static void work_fn(void *cookie);
static void comp_fn(void *cookie);
static int is_worker_slot(int s) { for (int i = 0; i < nworkers; i++) if (worker_slots[i] == s) return 1; return 0; }

static void hook_thread_start(void *cookie)
{
	int s = sched_self();
	(void)cookie;
	if (s < 0 || s == own[0].slot) FAILP("C13", "start-hook-thread", "thread_start hook ran in T%d", s);
	if (!is_worker_slot(s)) worker_slots[nworkers++] = s;
	if (++start_count[s] != 1) FAILP("C13", "start-hook-twice", "thread_start hook ran %d times in T%d", start_count[s], s);
	vz_log("[T%d] worker thread_start", s);
}
static void hook_thread_stop(void *cookie)
{
	int s = sched_self();
	(void)cookie;
	if (start_count[s] != 1) FAILP("C13", "stop-without-start", "thread_stop hook in T%d without thread_start", s);
	if (++stop_count[s] != 1) FAILP("C13", "stop-hook-twice", "thread_stop hook ran %d times in T%d", stop_count[s], s);
	if (vk_now() >= 1010 * VK_NS) vz_label(L_IDLE_TIMEOUT_DEATH);
	vz_log("[T%d] worker thread_stop", s);
}
static void pool_create(void)
{
	pool = malloc(sizeof *pool); memset(pool, 0xA5, sizeof *pool);
	IV_WORK_POOL_INIT(pool);
	pool->max_threads = pool_max; pool->cookie = NULL; pool->thread_start = hook_thread_start; pool->thread_stop = hook_thread_stop;
	if (iv_work_pool_create(pool)) fail_any("pool-create-failed", "iv_work_pool_create failed");
	pool_alive = 1; pool_put_called = 0; pool_generation++;
	vz_label(L_POOL);
	vz_log("[T%d] pool create max_threads=%d", sched_self(), pool_max);
}
static void pool_put(void)
{
	int busy = running_now > 0, starting = 0, idle = 0;
	for (int i = 0; i < nworkers; i++) { int s = worker_slots[i]; if (start_count[s] && !stop_count[s]) idle++; }
	for (int s = 0; s < sched_nthreads(); s++) if (!start_count[s] && !sched_thread_finished(s) && s != own[0].slot) starting++;
	if (busy) vz_label(L_PUT_WHILE_BUSY); else if (idle) vz_label(L_PUT_WHILE_IDLE);
	pool_threads_requested = sched_nthreads() - 1 - harness_threads;
	if (pool_threads_requested > nworkers) vz_label(L_PUT_WHILE_STARTING);    /* a pool thread was created but has not run its start hook yet */
	(void)starting;
	vz_log("[T%d] pool put (running=%d)", sched_self(), running_now);
	vz_hash_u(0x300);
	pool_put_called = 1;      /* from here on no new continuation is started */
	while (cont_inflight > 0) sched_yield_to_others("wait-continuation");   /* the caller may not release a pool struct that a submit call is using */
	iv_work_pool_put(pool);
	pool_alive = 0;
	/* the caller may reuse the structure immediately */
	memset(pool, 0x5A, sizeof *pool); free(pool); pool = NULL;
}
static struct iv_work_item *reuse_struct;
static void submit_item(int cont_of, int local)
{
	if (nitems >= MAXITEM || items_budget <= 0) return;
	if (!local && (!pool_alive || pool_put_called)) return;
	struct item *it = &items[nitems];
	memset(it, 0, sizeof *it);
	it->id = nitems++; items_budget--;
	if (reuse_struct) {
		/* the struct of an item whose completion is running right now is submitted again, as it is */
		it->wp = reuse_struct; reuse_struct = NULL; vz_label(L_ITEM_STRUCT_REUSED);
	} else { it->wp = &it->w; IV_WORK_ITEM_INIT(it->wp); }
	it->wp->cookie = it; it->wp->work = work_fn; it->wp->completion = comp_fn;
	it->submitted = 1; it->is_cont = cont_of >= 0; it->local = local;
	int all_busy = running_now >= pool_max;
	if (!local && all_busy) vz_label(L_SUBMIT_ALL_BUSY);
	if (!local && vk_now() >= 1010 * VK_NS)
		for (int i = 0; i < nworkers; i++) if (start_count[worker_slots[i]] && !stop_count[worker_slots[i]]) vz_label(L_SUBMIT_IDLE_EXPIRED);
	vz_log("[T%d] submit item %d%s%s", sched_self(), it->id, it->is_cont ? " (continuation)" : "", local ? " (NULL pool)" : "");
	vz_hash_u(0x400 + it->is_cont * 2 + local);
	if (local) { vz_label(L_LOCAL_WORK); iv_work_pool_submit_work(NULL, it->wp); }
	else if (it->is_cont) { vz_label(L_CONTINUATION); iv_work_pool_submit_continuation(pool, it->wp); }
	else {
		/* out of threads at the moment the pool wants a worker: the item stays queued, and the next submission tries again
		 * (made right here, so that "every submitted item completes" remains what the pool promises) */
		int inject = sched_self() == own[0].slot && nitems < MAXITEM && items_budget > 0 && ch_n(8) == 0;
		if (inject) sched_fail_next_create = 1;
		iv_work_pool_submit_work(pool, it->wp);
		if (inject) {
			if (sched_fail_next_create) sched_fail_next_create = 0;       /* no worker was wanted */
			else { vz_label(L_POOL_CREATE_FAILS); vz_log("[T%d] (worker creation failed: EAGAIN)", sched_self()); submit_item(-1, 0); }
		}
	}
}
static void work_fn(void *cookie)
{
	struct item *it = cookie;
	int me = sched_self();
	vz_log("[T%d] work item %d", me, it->id);
	if (++it->work_runs != 1) FAILP("C12", "work-twice", "work function of item %d ran %d times", it->id, it->work_runs);
	if (it->local) { if (me != own[0].slot) FAILP("C12", "local-work-thread", "NULL-pool work ran in T%d", me); }
	else {
		if (me == own[0].slot) FAILP("C12", "work-in-owner", "work function of item %d ran in the owner thread", it->id);
		if (++running_now > pool_max) FAILP("C12", "too-many-running", "%d work functions running at once, max_threads=%d", running_now, pool_max);
		if (running_now > max_running_seen) max_running_seen = running_now;
	}
	it->work_thread = me;
	sched_point("work");
	if (!it->local && ch_n(4) == 0 && pool_alive && !pool_put_called) { cont_inflight++; submit_item(it->id, 0); cont_inflight--; }
	sched_point("work2");
	if (!it->local) running_now--;
	it->work_returned = 1;
}
static void comp_fn(void *cookie)
{
	struct item *it = cookie;
	int me = sched_self();
	vz_log("[T%d] completion item %d", me, it->id);
	if (++it->comp_runs != 1) FAILP("C12", "completion-twice", "completion of item %d ran %d times", it->id, it->comp_runs);
	if (me != own[0].slot) FAILP("C12", "completion-thread", "completion of item %d ran in T%d, owner is T%d", it->id, me, own[0].slot);
	sched_point("completion");      /* completions take time: workers may finish more items, or exit, meanwhile */
	if (it->work_runs != 1 || !it->work_returned) FAILP("C12", "completion-before-work", "completion of item %d ran before its work function returned", it->id);
	if (pool_alive && !pool_put_called) {
		unsigned c = ch_n(8);
		if (c <= 2) { vz_label(L_SUBMIT_FROM_COMPLETION); if (ch_n(3) == 0) reuse_struct = it->wp; submit_item(-1, 0); reuse_struct = NULL; }
		else if (c == 3) { vz_label(L_PUT_FROM_COMPLETION); pool_put(); }
	}
}

/* ------------------------------------------------------------------ iv_thread children */
static void child_timer(void *c) { (void)c; }
static void child_fn(void *arg)
{
	struct child *c = arg;
	vz_log("[T%d] iv_thread child mode %d", sched_self(), c->mode);
	sched_point("child");
	if (c->mode >= 1 && c->mode <= 3) {
		iv_init();
		struct iv_timer t; IV_TIMER_INIT(&t); iv_validate_now(); t.expires = iv_now; t.expires.tv_nsec += 1000; if (t.expires.tv_nsec >= 1000000000) { t.expires.tv_sec++; t.expires.tv_nsec -= 1000000000; }
		t.handler = child_timer; t.cookie = NULL;
		iv_timer_register(&t);
		iv_main();
		if (c->mode == 1) iv_deinit();
		else vz_label(L_IVTHREAD_NODEINIT);
	}
	if (c->mode >= 3) { vz_label(L_IVTHREAD_PEXIT); pthread_exit(NULL); }
}
static void create_child(void)
{
	if (nchildren >= MAXCHILD) return;
	struct child *c = &children[nchildren];
	c->mode = ch_n(5); c->slot = sched_nthreads();
	vz_hash_u(0x500 + c->mode);
	vz_label(L_IVTHREAD);
	if (ch_n(6) == 0) { sched_fail_next_create = 1; vz_label(L_IVTHREAD_CREATE_FAILS); }     /* out of threads: the helper must report failure and leave the loop as it was */
	int r = iv_thread_create("child", child_fn, c);
	if (sched_fail_next_create) { sched_fail_next_create = 0; if (r == 0) fail_any("thread-create-fault-ignored", "pthread_create failed but iv_thread_create reported success"); }
	if (r == 0) { c->created = 1; nchildren++; harness_threads++; }
}

/* ------------------------------------------------------------------ owner programs */
static void owner_shutdown(struct owner *o)
{
	if (o->shutdown_done) return;
	o->shutdown_done = 1;     /* from here on nobody starts a new post to this owner's events ... */
	while (o->inflight > 0) sched_yield_to_others("wait-inflight-posts");   /* ... and the ones under way must return before the events go away */
	vz_log("[T%d] owner%d shuts down", sched_self(), (int)(o - own));
	for (int i = 0; i < MAXEV; i++) if (o->ev[i].registered) ev_unregister(o, i);
	for (int i = 0; i < MAXEV; i++) if (!o->ev[i].registered && o->ev[i].iv) { free(o->ev[i].iv); o->ev[i].iv = NULL; }
	for (int i = 0; i < MAXRAW; i++) if (o->raw[i].registered) raw_unregister(o, i);
	for (int k = 0; k < 2; k++) if (o->fds[k].registered) fd_unregister(o, k);
	for (int k = 0; k < 3; k++) if (o->act_busy[k]) { iv_timer_unregister(&o->act_timer[k]); o->act_busy[k] = 0; }
	if (iv_timer_registered(&o->shutdown_timer)) iv_timer_unregister(&o->shutdown_timer);
	if (o->busy_inited && iv_task_registered(&o->busy)) iv_task_unregister(&o->busy);
	o->busy_left = 0;
	if (o == &own[0] && pool_alive && !pool_put_called) pool_put();
}
static void shutdown_timer_cb(void *cookie) { owner_shutdown(cookie); }
static void act_timer_cb(void *cookie)
{
	struct owner *o = cookie;
	for (int k = 0; k < 3; k++) if (o->act_busy[k] && !iv_timer_registered(&o->act_timer[k])) o->act_busy[k] = 0;
	if (vk_now() >= 1010 * VK_NS) vz_label(L_TIME_PASSED_10S);
	if (o == &own[0] && pool_alive && !pool_put_called && ch_n(3)) submit_item(-1, 0);
	owner_actions(o, 3);
}

static void arm_act_timer(struct owner *o)
{
	for (int t = 0; t < 3; t++) if (!o->act_busy[t]) {
		int64_t dt = (int64_t[]){ 1000000, 9999000000ll, 10000000000ll, 10001000000ll, 20000000000ll, 500000000 }[ch_n(6)];
		IV_TIMER_INIT(&o->act_timer[t]);
		iv_validate_now();
		int64_t e = vk_ts_ns(&iv_now) + dt;
		o->act_timer[t].expires = vk_ns_ts(e); o->act_timer[t].cookie = o; o->act_timer[t].handler = act_timer_cb;
		iv_timer_register(&o->act_timer[t]); o->act_busy[t] = 1;
		vz_hash_u(0x600 + dt % 1000);
		return;
	}
}
static void busy_task_cb(void *c)
{
	struct owner *o = c;
	if (o->shutdown_done) { o->busy_left = 0; return; }
	/* one run per round of the loop: a post that was complete, with nobody else able to run, four rounds ago has had three full
	 * polls and dispatches to be delivered in */
	int quiet = o->inflight == 0 && sched_all_others_parked();
	for (int i = 0; i < MAXEV; i++) {
		struct mev *e = &o->ev[i];
		if (!quiet || !e->registered || e->last_completed_post_start <= e->last_handler_entry) { e->idle_rounds = 0; continue; }
		if (++e->idle_rounds >= 4) {
			FAILP("C08", "undelivered-post-busy-loop", "owner%d went round its loop %d times with event %d posted (t=%lu, last handler t=%lu) and every other thread parked, and has not run the handler", (int)(o - own), e->idle_rounds, i, e->last_completed_post_start, e->last_handler_entry);
			fail_any("undelivered-event-post", "owner%d keeps going round its loop with an undelivered iv_event post", (int)(o - own));
		}
	}
	if (--o->busy_left > 0) iv_task_register(&o->busy);
}
static void owner_actions(struct owner *o, int nmax)
{
	int oi = (int)(o - own);
	if (o->shutdown_done) return;
	/* early shutdown once every poster has reported in */
	if (nposters && o->stops_seen >= nposters && ch_n(2)) { owner_shutdown(o); return; }
	if (o->budget <= 0) return;
	int n = ch_n(nmax + 1);
	for (int k = 0; k < n && !o->shutdown_done; k++) {
		o->budget--;
		switch (ch_n(14)) {
		case 0: { int i = 3 + ch_n(2); if (o->ev[i].registered) { vz_label(L_POST_FROM_HANDLER); ev_post(&o->ev[i]);
				/* coupled pair (the same history as action 0 followed by action 2, made likely): post one local event, then
				   unregister the other one while a post of it is still waiting to be handled */
				struct mev *x = &o->ev[7 - i];
				if (x->registered && x->last_completed_post_start > x->last_handler_entry && (o->budget & 1)) { vz_label(L_POST_THEN_UNREG_PENDING); ev_unregister(o, 7 - i); }
			} } break;
		case 1: if (nown > 1) { struct owner *p = &own[1 - oi]; int i = 1 + ch_n(2); if (p->ev[i].registered && !p->shutdown_done) ev_post(&p->ev[i]); } break;
		case 2: { int i = 3 + ch_n(2); if (o->ev[i].registered) ev_unregister(o, i); } break;
		case 3: { int i = 3 + ch_n(2); if (!o->ev[i].registered) ev_register(o, i); } break;
		case 4: sched_point("action-yield"); break;
		case 5: if (oi == 0) submit_item(-1, 0); break;
		case 6: if (oi == 0 && pool_alive && !pool_put_called && ch_n(3) == 0) pool_put(); break;
		case 7: if (oi == 0) { int f = ch_n(2); if (o->fds[f].registered) { vz_label(L_FD_UNREG_IN_EVENT); if (ch_n(2)) fd_move(o, f); else fd_unregister(o, f); } } break;
		case 8: if (oi == 0 && ch_n(2)) create_child(); break;
		case 9: { /* do more at a generated virtual time */
			arm_act_timer(o); } break;
		case 99: {
			for (int t = 0; t < 3; t++) if (!o->act_busy[t]) {
				int64_t dt = (int64_t[]){ 1000000, 9999000000ll, 10000000000ll, 10001000000ll, 20000000000ll, 500000000 }[ch_n(6)];
				IV_TIMER_INIT(&o->act_timer[t]);
				iv_validate_now();
				int64_t e = vk_ts_ns(&iv_now) + dt;
				o->act_timer[t].expires = vk_ns_ts(e); o->act_timer[t].cookie = o; o->act_timer[t].handler = act_timer_cb;
				iv_timer_register(&o->act_timer[t]); o->act_busy[t] = 1;
				vz_hash_u(0x600 + dt % 1000);
				break;
			} } break;
		case 10: { int i = ch_n(MAXRAW); if (o->raw[i].registered) raw_post(&o->raw[i], 1 + ch_n(3)); } break;
		case 11: if (oi == 0 && ch_n(3) == 0) submit_item(-1, 1); break;
		case 12: if (!o->busy_left && ch_n(2)) {     /* the owner is busy for a number of rounds: a task that re-registers itself */
				if (!o->busy_inited) { IV_TASK_INIT(&o->busy); o->busy.cookie = o; o->busy.handler = busy_task_cb; o->busy_inited = 1; }
				o->busy_left = 3 + ch_n(30); vz_label(L_BUSY_OWNER); vz_hash_u(0x900 + o->busy_left);
				if (!iv_task_registered(&o->busy)) iv_task_register(&o->busy);
			} break;
		case 13: if (oi == 0 && pool_alive && ch_n(3) == 0) {
				/* the owner does not get back to its loop for a long time (virtual): workers finish, report, idle out and leave meanwhile */
				int64_t dt = (int64_t[]){ 1000000, 9999000000ll, 10001000000ll, 20000000000ll }[ch_n(4)];
				vz_label(L_OWNER_STALLS); vz_hash_u(0xa00 + dt % 1000);
				vz_log("[T%d] owner0 stalls for %lld ms inside a handler", sched_self(), (long long)(dt / 1000000));
				for (int r = 0; r < 6; r++) { vk_advance(dt / 6); for (int y = 0; y < 8 && sched_other_runnable(); y++) sched_yield_to_others("stall"); }
				iv_invalidate_now();
			} break;
		}
	}
}

static void owner_setup(struct owner *o)
{
	int oi = (int)(o - own);
	o->slot = sched_self();
	o->budget = 20 + ch_n(60);
	if (cfg_method >= 2 && eventfd_mode == 0 && ch_n(4) == 0) {
		/* the process is out of descriptors when this thread registers its first event (raw-event kick transport): the call
		 * fails and must leave the thread as it was, later registrations and cross-thread posts work as usual */
		struct iv_event *tmp = malloc(sizeof *tmp); memset(tmp, 0xA5, sizeof *tmp);
		IV_EVENT_INIT(tmp); tmp->cookie = NULL; tmp->handler = ev_handler;
		emfile_armed = 1;
		int r = iv_event_register(tmp);
		emfile_armed = 0;
		vz_log("[T%d] owner%d: first iv_event_register with eventfd2 -> EMFILE returned %d", sched_self(), oi, r);
		vz_label(L_EVENT_REG_EMFILE);
		if (r == 0) fail_any("event-register-fault-ignored", "iv_event_register succeeded although its kick descriptor could not be created");
		free(tmp);
	}
	for (int i = 0; i < 3; i++) ev_register(o, i);         /* stop + 2 shared */
	if (ch_n(2)) ev_register(o, 3);
	if (ch_n(2)) raw_register(o, 0);
	if (oi == 0 && ch_n(2)) { fd_register(o, 0); fd_register(o, 1); }
	if (ch_n(3) == 0) {      /* busy from the start: the posts of the other threads arrive while this loop never sleeps */
		IV_TASK_INIT(&o->busy); o->busy.cookie = o; o->busy.handler = busy_task_cb; o->busy_inited = 1;
		o->busy_left = 5 + ch_n(60); vz_label(L_BUSY_OWNER); vz_hash_u(0x900 + o->busy_left);
		iv_task_register(&o->busy);
	}
	IV_TIMER_INIT(&o->shutdown_timer);
	iv_validate_now();
	o->shutdown_timer.expires = iv_now; o->shutdown_timer.expires.tv_sec += 60;
	o->shutdown_timer.cookie = o; o->shutdown_timer.handler = shutdown_timer_cb;
	iv_timer_register(&o->shutdown_timer);
}

/* posters: straight-line scripts drawn when they are spawned */
struct pop { unsigned char op, a, b; unsigned short n; };
struct poster { struct pop ops[24]; int nops; };
static struct poster posters[MAXPOSTER];
static void *poster_main(void *arg)
{
	struct poster *p = arg;
	for (int k = 0; k < p->nops; k++) {
		struct pop *op = &p->ops[k];
		struct owner *o = &own[op->a % nown];
		switch (op->op) {
		case 0: case 1: { struct mev *e = &o->ev[1 + op->b % 2]; if (e->registered && !o->shutdown_done) ev_post(e); } break;
		case 2: sched_point("poster-yield"); break;
		case 3: { struct mev *e = &o->ev[1 + op->b % 2]; if (e->registered && !o->shutdown_done) { vz_label(L_BURST); for (int j = 0; j < 3; j++) ev_post(e); } } break;
		case 4: { struct mfd *f = &own[0].fds[op->b % 2]; if (f->registered) { ssize_t r = write(f->peer, "x", 1); (void)r; } } break;
		case 5: { struct mraw *r = &o->raw[0]; if (r->registered && !o->shutdown_done) raw_post(r, op->n); } break;
		}
	}
	/* report in: post every owner's stop event (shared events stay registered until all posters did) */
	posters_done++;
	for (int i = 0; i < nown; i++) if (own[i].ev[0].registered) ev_post(&own[i].ev[0]);
	return NULL;
}

static void check_owner_blocking_point(struct owner *o, const char *where)
{
	/* A post that found the pending list non-empty relies on the kick of the post that made it non-empty; while
	 * such a post -- by a harness poster or by the library itself (a pool worker reporting a completion) -- is still
	 * inside iv_event_post (preempted before its kick) the owner may legitimately block.  So the rule is applied
	 * only when every other thread is parked in a wait or a join, or has finished. */
	if (o->inflight > 0 || !sched_all_others_parked()) return;
	for (int i = 0; i < MAXEV; i++) {
		struct mev *e = &o->ev[i];
		if (e->registered && e->last_completed_post_start > e->last_handler_entry) {
			FAILP("C08", "undelivered-post", "owner%d %s while event %d has a completed post (t=%lu) not followed by a handler run (last handler t=%lu)", (int)(o - own), where, i, e->last_completed_post_start, e->last_handler_entry);
			fail_any("undelivered-event-post", "owner%d %s with an undelivered iv_event post", (int)(o - own), where);
		}
	}
	for (int i = 0; i < MAXRAW; i++) {
		struct mraw *r = &o->raw[i];
		if (r->registered && r->last_completed_post_start > r->last_handler_entry) {
			FAILP("C09", "undelivered-post", "owner%d %s while raw event %d has a completed post (t=%lu) not followed by a handler run (last %lu)", (int)(o - own), where, i, r->last_completed_post_start, r->last_handler_entry);
			fail_any("undelivered-raw-post", "owner%d %s with an undelivered iv_event_raw post", (int)(o - own), where);
		}
	}
}

/* ------------------------------------------------------------------ hooks */
static struct owner *owner_of_self(void)
{
	int s = sched_self();
	for (int i = 0; i < nown; i++) if (own[i].slot == s && own[i].in_main) return &own[i];
	return NULL;
}
/* every kernel poll of an owner, blocking or not: a completed post whose kick nobody else can still be about to send must be
 * picked up by the very next poll; three polls in a row without its handler is a lost wake-up even though the loop never sleeps */
static void hook_wait_entry(struct vk_wait *w)
{
	(void)w;
	struct owner *o = owner_of_self();
	if (!o) return;
	int quiet = o->inflight == 0 && sched_all_others_parked();
	for (int i = 0; i < MAXEV; i++) {
		struct mev *e = &o->ev[i];
		if (!quiet || !e->registered || e->last_completed_post_start <= e->last_handler_entry) { e->idle_polls = 0; continue; }
		if (++e->idle_polls >= 4) {
			FAILP("C08", "undelivered-post-busy-loop", "owner%d polled the kernel %d times with event %d posted (t=%lu, last handler t=%lu) and every other thread parked, and has not run the handler", (int)(o - own), e->idle_polls, i, e->last_completed_post_start, e->last_handler_entry);
			fail_any("undelivered-event-post", "owner%d keeps polling with an undelivered iv_event post", (int)(o - own));
		}
	}
}
static int hook_wait_block(struct vk_wait *w)
{
	struct owner *o = owner_of_self();
	if (o) check_owner_blocking_point(o, "blocks in the kernel");
	return sched_block_wait(w);
}
static void hook_epoll_ctl_pre(int epfd, int op, int fd) { (void)epfd; (void)op; (void)fd; sched_point("epoll_ctl"); }
static int hook_sysfault(int sys, unsigned long k)
{
	(void)k;
	if (sys == VKS_EVENTFD2 && emfile_armed) return EMFILE;
	if (sys == VKS_EVENTFD2 && eventfd_mode >= 1) return eventfd_mode == 1 ? EINVAL : ENOSYS;
	if (sys == VKS_EVENTFD && eventfd_mode >= 2) return ENOSYS;
	return 0;
}
static void on_deadlock(const char *desc)
{
	for (int i = 0; i < nown; i++) {
		struct owner *o = &own[i];
		for (int k = 0; k < MAXEV; k++) if (o->ev[k].registered && o->ev[k].last_completed_post_start > o->ev[k].last_handler_entry)
			FAILP("C08", "lost-wakeup", "all threads blocked with an undelivered post on owner%d.ev%d: %s", i, k, desc);
		for (int k = 0; k < MAXRAW; k++) if (o->raw[k].registered && o->raw[k].last_completed_post_start > o->raw[k].last_handler_entry)
			FAILP("C09", "lost-wakeup", "all threads blocked with an undelivered raw post on owner%d.raw%d: %s", i, k, desc);
	}
	for (int i = 0; i < nitems; i++) if (items[i].submitted && !items[i].comp_runs) {
		FAILP("C12", "items-never-complete", "all threads blocked; item %d (work_runs=%d) never completed: %s", i, items[i].work_runs, desc);
		FAILP("C13", "items-never-complete", "all threads blocked; item %d never completed: %s", i, desc);
	}
	FAILP("C13", "deadlock", "all threads blocked for good: %s", desc);
	fail_any("deadlock", "all threads blocked for good: %s", desc);
	_exit(3);
}
/* every thread is blocked and virtual time is about to advance: nothing can be in flight any more */
static void on_idle(void)
{
	if (!sched_all_others_parked()) return;   /* somebody is stuck on a lock: not a quiescent state, the deadlock detector decides */
	for (int i = 0; i < nown; i++) if (own[i].in_main && own[i].inflight == 0) {
		struct owner *o = &own[i];
		for (int k = 0; k < MAXEV; k++) if (o->ev[k].registered && o->ev[k].last_completed_post_start > o->ev[k].last_handler_entry) {
			FAILP("C08", "lost-wakeup", "every thread is blocked; owner%d sleeps with an undelivered post on event %d (posted t=%lu, last handler t=%lu): %s", i, k, o->ev[k].last_completed_post_start, o->ev[k].last_handler_entry, sched_describe());
			fail_any("lost-event-wakeup", "every thread blocked; owner%d sleeps with an undelivered iv_event post", i);
		}
		for (int k = 0; k < MAXRAW; k++) if (o->raw[k].registered && o->raw[k].last_completed_post_start > o->raw[k].last_handler_entry) {
			FAILP("C09", "lost-wakeup", "every thread is blocked; owner%d sleeps with an undelivered raw post on %d: %s", i, k, sched_describe());
			fail_any("lost-raw-wakeup", "every thread blocked; owner%d sleeps with an undelivered iv_event_raw post", i);
		}
	}
}
static void on_switch(const char *why, int from, int to)
{
	(void)to;
	for (int i = 0; i < nown; i++) if (own[i].slot == from && own[i].in_main && (!strcmp(why, "mutex_unlock") || !strcmp(why, "mutex_lock"))) vz_label(L_SWITCH_OWNER_DETACH);
}

static void *owner1_main(void *arg)
{
	struct owner *o = arg;
	iv_init();
	owner_setup(o);
	o->in_main = 1;
	iv_main();
	o->in_main = 0;
	if (!o->shutdown_done) { FAILP("C07", "early-return", "owner1 iv_main returned although objects are registered"); fail_any("early-return", "owner1 iv_main returned early"); }
	iv_deinit();
	return NULL;
}

static const char *excl[4] = { "", "epoll-timerfd", "epoll-timerfd epoll", "epoll-timerfd epoll ppoll" };

void target_run(void)
{
	const char *prof = vz_param("profile", "all");
	int want_pool = !strcmp(prof, "work") || !strcmp(prof, "pool");
	int want_events = !strcmp(prof, "event");
	cfg_method = ch_n(4);
	long fm = vz_param_l("method", -1); if (fm >= 0) cfg_method = fm;
	eventfd_mode = (int[]){ 0, 0, 0, 1, 2 }[ch_n(5)];
	long fe = vz_param_l("eventfd_mode", -1); if (fe >= 0) eventfd_mode = fe;
	nown = 1 + (ch_n(3) == 0);
	nposters = ch_n(MAXPOSTER + 1);
	if (want_events && nposters == 0) nposters = 1;
	pool_max = (ch_n(5) == 0 && !want_pool) ? 0 : 1 + ch_n(4);
	if (want_events && ch_n(2)) pool_max = 0;
	items_budget = pool_max ? 2 + ch_n(want_pool ? 24 : 8) : ch_n(3);
	setenv("IV_EXCLUDE_POLL_METHOD", excl[cfg_method], 1);
	vz_label(L_M0 + cfg_method);
	if (cfg_method >= 2) vz_label(L_RAW_KICK);
	if (eventfd_mode) vz_label(L_EVENTFD_FALLBACK);
	if (nown > 1) vz_label(L_TWO_OWNERS);
	vz_hash_u(cfg_method * 16 + eventfd_mode * 4 + nown); vz_hash_u(nposters * 8 + pool_max);
	vz_log("config: method=%d eventfd_mode=%d owners=%d posters=%d pool_max=%d items=%d", cfg_method, eventfd_mode, nown, nposters, pool_max, items_budget);

	signal(SIGPIPE, SIG_IGN);
	vk_reset();
	vk_hooks.wait_block = hook_wait_block; vk_hooks.wait_entry = hook_wait_entry; vk_hooks.epoll_ctl_pre = hook_epoll_ctl_pre; vk_hooks.sysfault = hook_sysfault;
	vk_hooks.io_pre = sched_io_pre; vk_hooks.io_post = sched_io_post;
	vk_active = 1;
	sched_on_deadlock = on_deadlock; sched_on_switch = on_switch; sched_on_idle = on_idle;
	iv_set_fatal_msg_handler(fatal_handler);
	sched_init();

	iv_init();
	struct owner *o = &own[0];
	owner_setup(o);
	if (pool_max) { pool_create(); int n = ch_n(4); for (int k = 0; k < n; k++) submit_item(-1, 0); if (n && !start_count[0]) vz_label(L_SUBMIT_BEFORE_FIRST_RUN); }
	if (pool_max && (want_pool || ch_n(2))) { arm_act_timer(o); if (ch_n(2)) arm_act_timer(o); }
	if (ch_n(3) == 0) create_child();
	if (nown > 1) { sched_spawn(owner1_main, &own[1]); harness_threads++; }
	/* owner1 must have registered its shared events before anyone posts to them */
	while (nown > 1 && !own[1].ev[2].registered) sched_yield_to_others("wait-owner1");
	for (int p = 0; p < nposters; p++) {
		struct poster *ps = &posters[p];
		ps->nops = 1 + ch_n(20);
		for (int k = 0; k < ps->nops; k++) {
			ps->ops[k].op = ch_n(6); ps->ops[k].a = ch_n(2); ps->ops[k].b = ch_n(2);
			ps->ops[k].n = (unsigned short[]){ 1, 2, 7, 1023, 1024, 1025, 4096, 65535 }[ch_n(8)];
			vz_hash_u(0x700 + ps->ops[k].op * 4 + ps->ops[k].a * 2 + ps->ops[k].b);
		}
		sched_spawn(poster_main, ps); harness_threads++;
	}
	owner_actions(o, 3);
	o->in_main = 1;
	iv_main();
	o->in_main = 0;
	vz_log("[T%d] owner0 iv_main returned", sched_self());
	if (!o->shutdown_done) { FAILP("C07", "early-return", "owner0 iv_main returned although objects are registered"); fail_any("early-return", "owner0 iv_main returned early"); }
	/* C13: the loop may not end before pool threads and iv_thread children have exited and been joined */
	for (int i = 0; i < nchildren; i++) {
		struct child *c = &children[i];
		if (!sched_thread_finished(c->slot)) FAILP("C13", "main-returned-child-alive", "creator's iv_main returned while iv_thread child T%d (mode %d) has not exited", c->slot, c->mode);
		else if (sched_join_count(c->slot) != 1) FAILP("C13", "child-not-joined", "iv_thread child T%d exited but was joined %d times", c->slot, sched_join_count(c->slot));
	}
	for (int i = 0; i < nworkers; i++) {
		int s = worker_slots[i];
		if (stop_count[s] != 1) FAILP("C13", "worker-no-stop-hook", "owner's iv_main returned; worker T%d ran thread_start but thread_stop %d times", s, stop_count[s]);
		if (!sched_thread_finished(s)) FAILP("C13", "main-returned-worker-alive", "owner's iv_main returned while pool thread T%d has not exited", s);
		else if (sched_join_count(s) != 1) FAILP("C13", "worker-not-joined", "pool thread T%d joined %d times", s, sched_join_count(s));
	}
	for (int i = 0; i < nitems; i++)
		if (items[i].submitted && (items[i].work_runs != 1 || items[i].comp_runs != 1)) {
			FAILP("C12", "item-incomplete", "owner's loop ended; item %d: work ran %d times, completion %d times", i, items[i].work_runs, items[i].comp_runs);
			FAILP("C13", "item-dropped-at-shutdown", "pool released; item %d submitted before the release: work ran %d times, completion %d times", i, items[i].work_runs, items[i].comp_runs);
		}
	iv_deinit();
	sched_finish();
	vk_active = 0;
	for (int p = 0; p < MAXEV; p++) (void)p;
	vz_count(0, sched_step); vz_count(1, sched_switches); vz_count(2, nitems); vz_count(3, sched_nthreads());
	const char *pr = vz_prop;
	int nt;
	if (!strncmp(pr, "C08", 3)) nt = vz_has_label(L_SWITCH_IN_POST) || vz_has_label(L_SWITCH_OWNER_DETACH);
	else if (!strncmp(pr, "C12", 3)) nt = vz_has_label(L_SUBMIT_ALL_BUSY) || vz_has_label(L_SUBMIT_IDLE_EXPIRED) || vz_has_label(L_SUBMIT_BEFORE_FIRST_RUN);
	else if (!strncmp(pr, "C13", 3)) nt = vz_has_label(L_PUT_WHILE_BUSY) || vz_has_label(L_PUT_WHILE_IDLE) || vz_has_label(L_IVTHREAD);
	else if (!strncmp(pr, "C09", 3)) nt = vz_has_label(L_RAW_CROSS_POST);
	else nt = sched_switches > 2;
	if (nt) vz_nontrivial();
}

/* case = program bytes + schedule bytes (second stream) */
extern uint8_t *vz_gen2_buf; extern size_t vz_gen2_len;
size_t target_gen(uint64_t seed, uint64_t index, uint8_t *buf, size_t cap)
{
	struct vz_rng r; rng_seed(&r, seed, index);
	size_t n = vz_gen_default(&r, buf, cap, 16, 300);
	/* schedule: mostly "keep running", with a generated density of context switches */
	static uint8_t sch[4096];
	size_t sl = 64 + rng_n(&r, sizeof sch - 64);
	unsigned density = (unsigned[]){ 2, 5, 10, 25, 50 }[rng_n(&r, 5)];
	for (size_t i = 0; i < sl; i++) sch[i] = rng_n(&r, 100) < density ? 1 + rng_n(&r, 7) : 0;
	vz_gen2_buf = sch; vz_gen2_len = sl;
	return n;
}
