/*
 * t_ino -- C20: iv_inotify.  Real inotify instances on a per-case scratch directory, generated
 * bursts of file-system operations, handler scripts that unregister this watch / another watch /
 * the whole instance or re-register a dropped watch.  The reference is the byte stream that the
 * library's own read() of the inotify descriptor returned (observed at the libc boundary): every
 * record must reach exactly the watch whose descriptor it carries, in order, filtered by what
 * has been unregistered by then.
 */
#ifndef _GNU_SOURCE
#define _GNU_SOURCE
#endif
#include "vfz.h"
#include "vk.h"
#include <errno.h>
#include <fcntl.h>
#include <stdio.h>
#include <stdlib.h>
#include <string.h>
#include <unistd.h>
#include <sys/inotify.h>
#include <sys/stat.h>
#include <iv.h>
#include <iv_inotify.h>

const char *target_name = "ino";

enum { L_MULTI_RECORD_READ, L_UNREG_WITH_RECORDS_PENDING, L_UNREG_SELF, L_UNREG_OTHER, L_UNREG_INSTANCE, L_ONESHOT, L_KERNEL_REMOVED, L_REREG_IN_HANDLER,
       L_NAMED_EVENT, L_TWO_INSTANCES, L_M0, L_M1, L_M2, L_M3, L_SUPPRESSED_RECORDS, L_HEAP_INSTANCE_EARLY_UNREG, L_OVERFLOW_OR_UNKNOWN_WD, L_FS_IN_HANDLER };

#define FAILC(tag, ...) vz_fail("C20", tag, __VA_ARGS__)
static void fail_any(const char *tag, const char *fmt, ...)
{
	char msg[700]; va_list ap; va_start(ap, fmt); vsnprintf(msg, sizeof msg, fmt, ap); va_end(ap);
	char p[8]; strncpy(p, vz_prop, 3); p[3] = 0;
	vz_fail(p, tag, "%s", msg);
}
static void fatal_handler(const char *msg) { fail_any("fatal", "iv_fatal: %s", msg); _exit(3); }

#define MAXINST 2
#define MAXW 5
#define MAXPEND 256
struct mwatch { struct iv_inotify_watch *iv; char *path; int inst, idx, registered, wd; uint32_t mask; long nevents; int gen; };
struct rec { int wd; uint32_t mask, cookie; char name[264]; int has_name; };
struct minst { struct iv_inotify *iv; int registered, fd; struct mwatch w[MAXW]; struct rec pend[MAXPEND]; int npend, head; long reads; };
static struct minst inst[MAXINST]; static int ninst;
static char root[160];
static long budget; static int depth, in_main;
static struct iv_timer burst_timer; static int bursts_left;
static int dispatching = -1;       /* instance whose records are being dispatched */

static const char *objs[] = { ".", "f0", "f1", "s0", "s0/g0" };
static void pathof(char *out, size_t n, const char *rel) { snprintf(out, n, "%s/%s", root, rel); }

/* ------------------------------------------------------------------ file system operations */
static void fs_op(void)
{
	char a[600], b[600];
	unsigned op = ch_n(12);
	static char longname[260];
	if (!longname[0]) { memset(longname, 'L', 250); longname[250] = 0; }     /* a name near NAME_MAX: the largest record the kernel can produce */
	const char *f = (const char *[]){ "f0", "f1", "f2", "s0/g0", "s0/g1", longname }[ch_n(6)];
	pathof(a, sizeof a, f);
	switch (op) {
	case 0: case 1: { int fd = open(a, O_CREAT | O_WRONLY, 0600); if (fd >= 0) close(fd); vz_log("  fs: create %s", f); } break;
	case 2: case 3: { int fd = open(a, O_WRONLY | O_APPEND); if (fd >= 0) { ssize_t r = write(fd, "xy", 2); (void)r; close(fd); } vz_log("  fs: append %s", f); } break;
	case 4: if (truncate(a, 0)) {} vz_log("  fs: truncate %s", f); break;
	case 5: { pathof(b, sizeof b, (const char *[]){ "f0", "f1", "f2", "s0/g0" }[ch_n(4)]); if (rename(a, b)) {} vz_log("  fs: rename %s", f); } break;
	case 6: unlink(a); vz_log("  fs: unlink %s", f); break;
	case 7: pathof(a, sizeof a, "s0"); mkdir(a, 0700); vz_log("  fs: mkdir s0"); break;
	case 8: pathof(a, sizeof a, "s0"); rmdir(a); vz_log("  fs: rmdir s0"); break;
	case 9: { int fd = open(a, O_RDONLY); if (fd >= 0) { char c; ssize_t r = read(fd, &c, 1); (void)r; close(fd); } vz_log("  fs: read %s", f); } break;
	case 10: chmod(a, 0644); vz_log("  fs: chmod %s", f); break;
	default: { pathof(a, sizeof a, "s1"); mkdir(a, 0700); rmdir(a); vz_log("  fs: mkdir+rmdir s1"); } break;
	}
	vz_hash_u(0x100 + op * 8);
}

/* ------------------------------------------------------------------ watches and instances */
static void watch_handler(void *cookie, struct inotify_event *ev);
static void actions(struct mwatch *self, int nmax);
static const uint32_t masks[] = { IN_ALL_EVENTS, IN_MODIFY, IN_CREATE | IN_DELETE, IN_ALL_EVENTS | IN_ONESHOT, IN_DELETE_SELF | IN_MOVE_SELF | IN_MODIFY, IN_CLOSE | IN_OPEN, IN_MODIFY | IN_ONESHOT, IN_ATTRIB | IN_MOVE };

static int watch_register(int ii, int wi, int reuse_struct)
{
	struct minst *I = &inst[ii]; struct mwatch *w = &I->w[wi];
	char p[256];
	if (!reuse_struct) {
		w->iv = malloc(sizeof *w->iv); memset(w->iv, 0xA5, sizeof *w->iv);
		IV_INOTIFY_WATCH_INIT(w->iv);
		pathof(p, sizeof p, objs[ch_n(5)]);
		w->path = strdup(p);
		w->mask = masks[ch_n(8)];
	}
	w->inst = ii; w->idx = wi;
	w->iv->inotify = I->iv; w->iv->pathname = w->path; w->iv->mask = w->mask; w->iv->cookie = w; w->iv->handler = watch_handler;
	int r = iv_inotify_watch_register(w->iv);
	vz_log("  inst%d watch%d register %s mask=0x%x -> %d (wd %d)%s", ii, wi, w->path + strlen(root) + 1, w->mask, r, r ? -1 : w->iv->wd, reuse_struct ? " (same struct, from its own handler)" : "");
	vz_hash_u(0x200 + ii * 8 + wi); vz_hash_u(w->mask);
	if (r == 0) {
		/* the kernel hands out one watch descriptor per inode: a second watch on the same object in the same instance
		 * would share it, which the API cannot represent -- keep objects distinct per instance */
		for (int k = 0; k < MAXW; k++) if (k != wi && I->w[k].registered && I->w[k].wd == w->iv->wd) {
			fail_any("duplicate-wd-accepted", "two watches of one instance got the same watch descriptor and registration reported success");
		}
		w->registered = 1; w->wd = w->iv->wd; w->gen++; w->nevents = 0;
		if (w->mask & IN_ONESHOT) vz_label(L_ONESHOT);
		return 0;
	}
	if (reuse_struct) return r;
	free(w->path); w->path = NULL; memset(w->iv, 0x5A, sizeof *w->iv); free(w->iv); w->iv = NULL;
	return r;
}
static void watch_release(struct mwatch *w)
{
	memset(w->iv, 0x5A, sizeof *w->iv); free(w->iv); w->iv = NULL; free(w->path); w->path = NULL;
}
static int records_pending_for(struct minst *I, int wd)
{
	for (int k = I->head; k < I->npend; k++) if (I->pend[k].wd == wd) return 1;
	return 0;
}
static void watch_unregister(int ii, int wi)
{
	struct minst *I = &inst[ii]; struct mwatch *w = &I->w[wi];
	if (dispatching == ii && records_pending_for(I, w->wd)) vz_label(L_UNREG_WITH_RECORDS_PENDING);
	vz_log("  inst%d watch%d unregister", ii, wi); vz_hash_u(0x300 + ii * 8 + wi);
	w->registered = 0;
	iv_inotify_watch_unregister(w->iv);
	watch_release(w);
}
static void inst_register(int ii)
{
	struct minst *I = &inst[ii];
	I->iv = malloc(sizeof *I->iv); memset(I->iv, 0xA5, sizeof *I->iv);
	IV_INOTIFY_INIT(I->iv);
	if (iv_inotify_register(I->iv)) vz_inconclusive("inotify_init failed");
	I->registered = 1; I->fd = I->iv->fd.fd; I->npend = I->head = 0;
	vz_log("  inst%d register (fd %d)", ii, I->fd); vz_hash_u(0x400 + ii);
}
static void inst_unregister(int ii)
{
	struct minst *I = &inst[ii];
	if (dispatching == ii && I->head < I->npend) vz_label(L_UNREG_WITH_RECORDS_PENDING);
	if (I->reads == 0) vz_label(L_HEAP_INSTANCE_EARLY_UNREG);
	vz_log("  inst%d unregister (whole instance)", ii); vz_hash_u(0x500 + ii);
	for (int k = 0; k < MAXW; k++) if (I->w[k].registered) { I->w[k].registered = 0; watch_release(&I->w[k]); }   /* watches go with the instance */
	I->registered = 0;
	iv_inotify_unregister(I->iv);
	memset(I->iv, 0x5A, sizeof *I->iv); free(I->iv); I->iv = NULL;
}

/* ------------------------------------------------------------------ the reference stream */
static void finish_dispatch(int ii, const char *where);
static void hook_read_post(int fd, void *buf, ssize_t r)
{
	/* the library handles one descriptor at a time: when another instance's descriptor is read, the dispatch of the previous
	 * instance's records is over - what it passed over is judged against the watches as they were THEN (a watch that is
	 * registered later and happens to get the same watch descriptor has no claim on them) */
	if (r > 0 && dispatching >= 0 && inst[dispatching].fd != fd)
		for (int ii = 0; ii < ninst; ii++) if (inst[ii].registered && inst[ii].fd == fd) { finish_dispatch(dispatching, "before the next instance's read"); break; }
	for (int ii = 0; ii < ninst; ii++) {
		struct minst *I = &inst[ii];
		if (!I->registered || I->fd != fd || r <= 0) continue;
		/* everything of the previous read must have been dealt with */
		if (I->head < I->npend) fail_any("harness-pending-at-read", "internal: records pending at next read");
		I->npend = I->head = 0; I->reads++;
		char *p = buf, *e = p + r; int n = 0;
		while (p < e && I->npend < MAXPEND) {
			struct inotify_event *ev = (struct inotify_event *)p;
			struct rec *q = &I->pend[I->npend++];
			q->wd = ev->wd; q->mask = ev->mask; q->cookie = ev->cookie; q->has_name = ev->len > 0;
			snprintf(q->name, sizeof q->name, "%s", ev->len ? ev->name : "");
			if (ev->len) vz_label(L_NAMED_EVENT);
			p += sizeof *ev + ev->len; n++;
		}
		if (n >= 3) vz_label(L_MULTI_RECORD_READ);
		dispatching = ii;
		vz_log(" read(inst%d) -> %d record(s)", ii, n);
	}
}
static struct mwatch *watch_by_wd(struct minst *I, int wd)
{
	if (!I->registered) return NULL;
	for (int k = 0; k < MAXW; k++) if (I->w[k].registered && I->w[k].wd == wd) return &I->w[k];
	return NULL;
}
/* all records the library has passed over (or will never reach) must be ones nobody may receive any more */
static void finish_dispatch(int ii, const char *where)
{
	struct minst *I = &inst[ii];
	while (I->head < I->npend) {
		struct rec *q = &I->pend[I->head];
		struct mwatch *w = watch_by_wd(I, q->wd);
		if (w) FAILC("event-dropped", "%s: record #%d of the last read (wd %d mask 0x%x name '%s') belongs to registered watch %d.%d and was never delivered", where, I->head, q->wd, q->mask, q->name, ii, w->idx);
		I->head++;
		vz_label(L_SUPPRESSED_RECORDS);
	}
	if (dispatching == ii) dispatching = -1;
}

static void watch_handler(void *cookie, struct inotify_event *ev)
{
	struct mwatch *w = cookie;
	depth++;
	int ii = w->inst;
	struct minst *I = &inst[ii];
	vz_log("handler inst%d watch%d: wd %d mask 0x%x name '%s'", ii, w->idx, ev->wd, ev->mask, ev->len ? ev->name : "");
	if (!in_main || depth != 1) fail_any("callback-context", "inotify handler outside iv_main or nested");
	if (!I->registered) { vz_fail("C01", "callback-after-unregister", "watch handler ran after iv_inotify_unregister of its instance returned"); FAILC("delivery-after-instance-unregister", "watch handler ran although the instance was unregistered"); }
	if (!w->registered) { vz_fail("C01", "callback-after-unregister", "watch handler ran after iv_inotify_watch_unregister returned"); FAILC("delivery-after-unregister", "handler of watch %d.%d ran although it is not registered (unregistered, one-shot already fired, or removed by the kernel)", ii, w->idx); }
	if (dispatching != ii) FAILC("delivery-without-read", "handler ran but no read of instance %d is being dispatched", ii);
	/* walk the reference stream up to the record that this call must correspond to */
	for (;;) {
		if (I->head >= I->npend) FAILC("invented-event", "watch %d.%d got an event (wd %d mask 0x%x) that is not in what the kernel returned", ii, w->idx, ev->wd, ev->mask);
		struct rec *q = &I->pend[I->head];
		struct mwatch *t = watch_by_wd(I, q->wd);
		if (!t) { I->head++; vz_label(L_SUPPRESSED_RECORDS); continue; }     /* nobody may receive this one (any more) */
		if (t != w) FAILC("misrouted", "record wd %d mask 0x%x name '%s' belongs to watch %d.%d but watch %d.%d's handler ran (out of order or wrong watch)", q->wd, q->mask, q->name, ii, t->idx, ii, w->idx);
		if ((int)q->wd != ev->wd || q->mask != ev->mask || q->cookie != ev->cookie || strcmp(q->name, ev->len ? ev->name : ""))
			FAILC("wrong-event", "watch %d.%d: expected record (wd %d mask 0x%x name '%s'), handler got (wd %d mask 0x%x name '%s')", ii, w->idx, q->wd, q->mask, q->name, ev->wd, ev->mask, ev->len ? ev->name : "");
		I->head++;
		break;
	}
	w->nevents++;
	int dropped = (ev->mask & IN_IGNORED) || (w->mask & IN_ONESHOT);
	if (dropped) {
		/* the library has taken the watch out of the instance before calling us: the struct is ours again */
		if (ev->mask & IN_IGNORED) vz_label(L_KERNEL_REMOVED);
		w->registered = 0;
		if (ch_n(3) == 0) {
			/* re-arm the very same struct from its own handler */
			vz_label(L_REREG_IN_HANDLER);
			if (watch_register(ii, w->idx, 1) != 0) {
				struct stat sb;
				int others = 0;     /* another watch of this instance on the same inode shares the kernel's watch descriptor: a legitimate refusal */
				for (int k = 0; k < MAXW; k++) others += I->w[k].registered;
				if (!others && stat(w->path, &sb) == 0) FAILC("reregister-failed", "re-registering a dropped watch from its own handler failed although the object exists");
				watch_release(w);
			}
		} else watch_release(w);
	}
	if (budget-- > 0) {
		/* the handler scripts the property is about: take something out while records for it may still be unparsed */
		switch (ch_n(9)) {
		case 0: if (w->registered) { vz_label(L_UNREG_SELF); watch_unregister(ii, w->idx); } break;
		case 1: case 2: { int k = ch_n(MAXW); if (I->registered && I->w[k].registered && &I->w[k] != w) { vz_label(L_UNREG_OTHER); watch_unregister(ii, k); } } break;
		case 3: if (I->registered && ch_n(2)) { vz_label(L_UNREG_INSTANCE); inst_unregister(ii); } break;
		default: break;
		}
		actions((inst[ii].registered && w->registered) ? w : NULL, 2);
	}
	depth--;
}

/* ------------------------------------------------------------------ scripts */
static void actions(struct mwatch *self, int nmax)
{
	int n = ch_n(nmax + 1);
	for (int k = 0; k < n; k++) {
		int ii = ch_n(ninst), wi = ch_n(MAXW);
		struct minst *I = &inst[ii];
		switch (ch_n(10)) {
		case 0: case 1: if (depth) vz_label(L_FS_IN_HANDLER); fs_op(); break;
		case 2: if (I->registered && !I->w[wi].registered && !I->w[wi].iv) watch_register(ii, wi, 0); break;
		case 3: if (self && self->registered) { vz_label(L_UNREG_SELF); watch_unregister(self->inst, self->idx); self = NULL; } break;
		case 4: if (I->registered && I->w[wi].registered && &I->w[wi] != self) { if (depth) vz_label(L_UNREG_OTHER); watch_unregister(ii, wi); } break;
		case 5: if (I->registered && depth && ch_n(3) == 0) { vz_label(L_UNREG_INSTANCE); if (self && self->inst == ii) self = NULL; inst_unregister(ii); } break;
		case 6: if (!I->registered && !I->iv && ch_n(2)) inst_register(ii); break;
		default: break;
		}
	}
}
static void burst_cb(void *c)
{
	/* a timer handler: the descriptor dispatch of the previous iteration is over (timers run before the next poll) */
	for (int ii = 0; ii < ninst; ii++) if (inst[ii].head < inst[ii].npend || dispatching == ii) finish_dispatch(ii, "end of the iteration (next timer round)");
	(void)c;
	depth++;
	vz_log("burst:");
	int n = 1 + ch_n(12);
	for (int k = 0; k < n; k++) fs_op();
	actions(NULL, 2);
	depth--;
	if (--bursts_left > 0) {
		iv_validate_now();
		burst_timer.expires = vk_ns_ts(vk_ts_ns(&iv_now) + 1000000);
		iv_timer_register(&burst_timer);
	} else {
		vz_log("wind down");
		for (int ii = 0; ii < ninst; ii++) if (inst[ii].registered) {
			if (ch_n(2)) { for (int k = 0; k < MAXW; k++) if (inst[ii].w[k].registered) watch_unregister(ii, k); }
			inst_unregister(ii);
		}
	}
}

/* ------------------------------------------------------------------ hooks */
static void hook_wait_entry(struct vk_wait *w)
{
	(void)w;
	if (!in_main) return;
	/* the dispatch of the previous iteration is over */
	for (int ii = 0; ii < ninst; ii++) if (inst[ii].head < inst[ii].npend || dispatching == ii) finish_dispatch(ii, "end of the iteration");
}
static int hook_wait_block(struct vk_wait *w)
{
	if (!in_main) return VK_SLEEP;
	for (int ii = 0; ii < ninst; ii++) if (inst[ii].registered) {
		struct pollfd p = { inst[ii].fd, POLLIN, 0 };
		if (__real_poll(&p, 1, 0) > 0) FAILC("block-with-events-queued", "loop blocks while inotify instance %d has events queued in the kernel", ii);
	}
	(void)w;
	return VK_SLEEP;
}
static void hook_quiescent(struct vk_wait *w) { (void)w; fail_any("hang", "loop blocks forever"); _exit(3); }
static int hook_poll_is_probe(void) { return !in_main || depth > 0; }
static const char *excl[4] = { "", "epoll-timerfd", "epoll-timerfd epoll", "epoll-timerfd epoll ppoll" };

void target_run(void)
{
	int method = ch_n(4);
	setenv("IV_EXCLUDE_POLL_METHOD", excl[method], 1);
	vz_label(L_M0 + method);
	ninst = 1 + (ch_n(3) == 0); if (ninst > 1) vz_label(L_TWO_INSTANCES);
	budget = 10 + ch_n(60); bursts_left = 1 + ch_n(6);
	snprintf(root, sizeof root, "%s", vz_scratch_dir());
	{ char p[256]; pathof(p, sizeof p, "f0"); int fd = open(p, O_CREAT | O_WRONLY, 0600); if (fd >= 0) close(fd); pathof(p, sizeof p, "s0"); mkdir(p, 0700); }
	vz_hash_u(method * 4 + ninst);
	vz_log("config: method=%d instances=%d bursts=%d", method, ninst, bursts_left);
	vk_reset();
	vk_hooks.wait_entry = hook_wait_entry; vk_hooks.wait_block = hook_wait_block; vk_hooks.quiescent = hook_quiescent;
	vk_hooks.read_post = hook_read_post; vk_hooks.poll_is_probe = hook_poll_is_probe;
	vk_active = 1; { extern int vlock_active; vlock_active = 1; }
	iv_set_fatal_msg_handler(fatal_handler);
	iv_init();
	vz_log("setup:");
	for (int ii = 0; ii < ninst; ii++) {
		inst_register(ii);
		int nw = 1 + ch_n(4);
		for (int k = 0; k < nw; k++) { int wi = ch_n(MAXW); if (!inst[ii].w[wi].registered && !inst[ii].w[wi].iv) watch_register(ii, wi, 0); }
	}
	if (ch_n(8) == 0) { int ii = ch_n(ninst); inst_unregister(ii); inst_register(ii); }   /* unregister before any event was seen */
	IV_TIMER_INIT(&burst_timer);
	iv_validate_now();
	burst_timer.expires = iv_now; burst_timer.handler = burst_cb;
	iv_timer_register(&burst_timer);
	in_main = 1; iv_main(); in_main = 0;
	for (int ii = 0; ii < ninst; ii++) if (inst[ii].registered) fail_any("early-return", "iv_main returned with an inotify instance registered");
	iv_deinit();
	vk_active = 0;
	if (vz_has_label(L_MULTI_RECORD_READ) && vz_has_label(L_UNREG_WITH_RECORDS_PENDING)) vz_nontrivial();
}

size_t target_gen(uint64_t seed, uint64_t index, uint8_t *buf, size_t cap)
{
	struct vz_rng r; rng_seed(&r, seed, index);
	return vz_gen_default(&r, buf, cap, 16, 400);
}
