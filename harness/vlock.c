/*
 * vlock -- for the single-threaded targets: pthread_mutex_lock on a mutex that the (only) thread already
 * holds can never succeed; report it as a verdict instead of hanging in real time.
 */
#ifndef _GNU_SOURCE
#define _GNU_SOURCE
#endif
#include "vfz.h"
#include <pthread.h>
#include <string.h>
#include <unistd.h>
int __real_pthread_mutex_lock(pthread_mutex_t *);
int __real_pthread_mutex_unlock(pthread_mutex_t *);
int __real_pthread_mutex_destroy(pthread_mutex_t *);
#define NL 64
static pthread_mutex_t *held[NL];
int vlock_active;
int __wrap_pthread_mutex_lock(pthread_mutex_t *m)
{
	if (vlock_active) {
		for (int i = 0; i < NL; i++) if (held[i] == m) {
			char p[8]; strncpy(p, vz_prop, 3); p[3] = 0;
			vz_fail(p, "self-deadlock", "the thread locks a library mutex that it already holds (an unlock is missing on some path): it would block forever");
			_exit(3);
		}
		for (int i = 0; i < NL; i++) if (!held[i]) { held[i] = m; break; }
	}
	return __real_pthread_mutex_lock(m);
}
int __wrap_pthread_mutex_unlock(pthread_mutex_t *m)
{
	if (vlock_active) for (int i = 0; i < NL; i++) if (held[i] == m) { held[i] = NULL; break; }
	return __real_pthread_mutex_unlock(m);
}
int __wrap_pthread_mutex_destroy(pthread_mutex_t *m)
{
	for (int i = 0; i < NL; i++) if (held[i] == m) held[i] = NULL;
	return __real_pthread_mutex_destroy(m);
}
