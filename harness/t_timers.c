/*
 * t_timers -- C05: timer order and independence at any population, incl. the radix-tree level
 * boundaries at 128 and 16384 entries.  Histories of register/unregister/bulk operations from
 * setup and from timer handlers, virtual clock, reference multiset model (binary heap with lazy
 * deletion + per-timer records).
 */
#ifndef _GNU_SOURCE
#define _GNU_SOURCE
#endif
#include "vfz.h"
#include "vk.h"
#include <errno.h>
#include <stdio.h>
#include <stdlib.h>
#include <string.h>
#include <iv.h>

const char *target_name = "timers";

enum { L_CROSS128_UP, L_CROSS128_DOWN, L_CROSS16K_UP, L_CROSS16K_DOWN, L_INTERIOR_REMOVAL, L_REMOVE_ROOT, L_REMOVE_LAST, L_EQUAL_KEYS,
       L_UNREG_IN_EXPIRED_BATCH, L_BULK_REG, L_BULK_UNREG, L_REG_FROM_HANDLER, L_PAST_EXPIRY, L_EMPTY_THEN_REFILL, L_M0, L_M1, L_M2, L_M3,
       L_FAR_FUTURE, L_EXTREME_VALUE, L_SAME_STRUCT };

#define MAXT 60000
typedef __int128 xkey;             /* expiry in ns; 128 bits so that any tv_sec value can be modelled */
#define FAR_NS ((xkey)100000000 * VK_NS)   /* beyond this (relative) a timer is "parked": it can never fire within a case */
struct tmr {
	struct iv_timer *iv;       /* malloc'ed while registered */
	xkey expires; int registered; unsigned gen;
	unsigned long reg_entry;   /* number of wait entries seen when it was registered */
	unsigned long reg_round;
};
static struct tmr *tms; static int ntm;          /* all timers ever created in this case */
static int *regd; static int nregd;             /* indices of registered timers (unordered; swap-remove) */
static int *regpos;
static int population, maxpop, interior_removals;

/* reference heap (min on expires) with lazy deletion */
struct hent { xkey expires; int idx; unsigned gen; };
static struct hent *heap; static int nheap, capheap;
static void hpush(xkey e, int idx, unsigned gen)
{
	if (nheap == capheap) { capheap = capheap ? capheap * 2 : 1024; heap = realloc(heap, capheap * sizeof *heap); }
	int i = nheap++;
	while (i > 0 && heap[(i - 1) / 2].expires > e) { heap[i] = heap[(i - 1) / 2]; i = (i - 1) / 2; }
	heap[i] = (struct hent){ e, idx, gen };
}
static void hpop(void)
{
	struct hent last = heap[--nheap];
	int i = 0;
	for (;;) {
		int c = 2 * i + 1;
		if (c >= nheap) break;
		if (c + 1 < nheap && heap[c + 1].expires < heap[c].expires) c++;
		if (heap[c].expires >= last.expires) break;
		heap[i] = heap[c]; i = c;
	}
	if (nheap) heap[i] = last;
}
static int hvalid(const struct hent *h) { return tms[h->idx].registered && tms[h->idx].gen == h->gen; }
static struct hent *htop(void)
{
	while (nheap && !hvalid(&heap[0])) hpop();
	return nheap ? &heap[0] : NULL;
}

/* wait-entry times */
static int64_t *entry_time; static unsigned long nentry, capentry;
static unsigned long round_id;
static long handler_actions_left;
static int in_main, depth;
static int last_due_min = -1; static unsigned last_due_gen;
static int cfg_method;

#define FAIL(tag, ...) vz_fail("C05", tag, __VA_ARGS__)

static void fatal_handler(const char *msg)
{
	vz_log("iv_fatal: %s", msg);
	vz_fail("C05", "fatal", "iv_fatal: %s", msg);
	_exit(3);
}

static void timer_cb(void *cookie);

static void pop_change(int delta)
{
	int before = population; population += delta;
	if (before <= 127 && population >= 128) vz_label(L_CROSS128_UP);
	if (before >= 128 && population <= 127) vz_label(L_CROSS128_DOWN);
	if (before <= 16383 && population >= 16384) vz_label(L_CROSS16K_UP);
	if (before >= 16384 && population <= 16383) vz_label(L_CROSS16K_DOWN);
	if (population > maxpop) maxpop = population;
	if (before == 0 && delta > 0 && maxpop > 0 && ntm > 1) vz_label(L_EMPTY_THEN_REFILL);
}

static struct iv_timer *stash[64]; static int nstash; static unsigned stash_tick;
static int do_register(xkey expires)
{
	if (ntm >= MAXT) return -1;
	int i = ntm++;
	struct tmr *t = &tms[i];
	if (nstash && (++stash_tick & 1)) { t->iv = stash[--nstash]; vz_label(L_SAME_STRUCT); }     /* a struct that was registered before, as it was left: initialised once is enough */
	else { t->iv = malloc(sizeof *t->iv); memset(t->iv, 0xA5, sizeof *t->iv); IV_TIMER_INIT(t->iv); }
	t->expires = expires; t->gen = 1;
	t->iv->expires.tv_sec = (time_t)(expires / VK_NS); t->iv->expires.tv_nsec = (long)(expires % VK_NS);
	if (t->iv->expires.tv_nsec < 0) { t->iv->expires.tv_sec--; t->iv->expires.tv_nsec += VK_NS; }
	t->iv->cookie = (void *)(intptr_t)i; t->iv->handler = timer_cb;
	iv_timer_register(t->iv);
	t->registered = 1; t->reg_entry = nentry; t->reg_round = round_id;
	regpos[i] = nregd; regd[nregd++] = i;
	hpush(expires, i, t->gen);
	pop_change(+1);
	if (depth) vz_label(L_REG_FROM_HANDLER);
	return i;
}
static void forget(int i)
{
	struct tmr *t = &tms[i];
	t->registered = 0; t->gen++;
	int pos = regpos[i]; regd[pos] = regd[--nregd]; regpos[regd[pos]] = pos;
	if (nstash < 64 && (++stash_tick % 3) == 0) stash[nstash++] = t->iv;      /* kept by the caller for a later registration */
	else { memset(t->iv, 0x5A, sizeof *t->iv); free(t->iv); }
	t->iv = NULL;
	pop_change(-1);
}
static void do_unregister(int i)
{
	struct tmr *t = &tms[i];
	struct hent *top = htop();
	if (top && top->idx == i) vz_label(L_REMOVE_ROOT);
	else if (population >= 3 && i != ntm - 1) { vz_label(L_INTERIOR_REMOVAL); interior_removals++; }
	if (i == ntm - 1) vz_label(L_REMOVE_LAST);
	if (depth && t->expires <= vk_last_reading()) vz_label(L_UNREG_IN_EXPIRED_BATCH);
	iv_timer_unregister(t->iv);
	if (iv_timer_registered(t->iv)) FAIL("registered-after-unregister", "iv_timer_registered() true after unregister");
	forget(i);
}

static xkey draw_expiry(void)
{
	xkey now = vk_now();
	switch (ch_n(12)) {
	case 0: vz_label(L_PAST_EXPIRY); return now - 1 - (int64_t)ch_n(100) * 1000;
	case 1: vz_label(L_PAST_EXPIRY); return now;
	case 2: if (nregd) { vz_label(L_EQUAL_KEYS); return tms[regd[ch_n(nregd)]].expires; } return now + 5;
	case 3: return now + 1 + ch_n(200);
	case 4: return now + 1000 * (1 + ch_n(200));
	case 5: return now + 1000000ll * (1 + ch_n(100)) + ch_n(200);
	case 6: return now + VK_NS * (1 + ch_n(30));
	case 7: vz_label(L_FAR_FUTURE); return now + (xkey)VK_NS * 86400ll * (1 + ch_n(400));
	case 8: vz_label(L_EXTREME_VALUE); return (xkey[]){ 0, 1, 999999999ll, (xkey)9000000000ll * VK_NS, (xkey)10000000000ll * VK_NS + 5, (xkey)20000000000ll * VK_NS, (xkey)0x7fffffffll * VK_NS, (xkey)INT64_MAX * VK_NS + 999999999, (xkey)(INT64_MAX / 1000000000ll) * VK_NS, (xkey)9223372037ll * VK_NS, (xkey)4294967296ll * VK_NS }[ch_n(11)];
	default: return now + 1000ll * ch_n(60000);
	}
}

static void bulk_register(void)
{
	int n = (int[]){ 3, 20, 120, 130, 300, 0 }[ch_n(6)];
	if (n == 0) n = vz_param_l("large", 0) ? (int[]){ 16380, 16390, 16500, 17000, 20000, 33000 }[ch_n(6)] - population : 200;
	if (n <= 0) n = 10;
	int pattern = ch_n(5);
	xkey base = (xkey)vk_now() + 1000 + ch_n(100) * 1000, step = 1 + ch_n(3000);
	vz_label(L_BULK_REG);
	vz_log("  bulk register n=%d pattern=%d", n, pattern); vz_hash_u(0x100 + n * 8 + pattern);
	for (int k = 0; k < n && ntm < MAXT; k++) {
		xkey e;
		switch (pattern) {
		case 0: e = base + k * step; break;
		case 1: e = base + (xkey)(n - k) * step; break;
		case 2: e = base; vz_label(L_EQUAL_KEYS); break;
		case 3: e = base + (xkey)((k * 2654435761u) % 100000) * step; break;
		default: e = base + (k % 4) * step; vz_label(L_EQUAL_KEYS); break;
		}
		do_register(e);
	}
}
static void bulk_unregister(void)
{
	if (!nregd) return;
	int n = (int[]){ 2, 10, 100, 140, 0 }[ch_n(5)];
	if (n == 0) n = nregd - (int[]){ 0, 1, 100, 127, 128, 129, 16383, 16384 }[ch_n(8)];
	if (n > nregd) n = nregd;
	if (n <= 0) return;
	int pattern = ch_n(4);
	vz_label(L_BULK_UNREG);
	vz_log("  bulk unregister n=%d pattern=%d (of %d)", n, pattern, nregd); vz_hash_u(0x200 + n * 8 + pattern);
	for (int k = 0; k < n && nregd; k++) {
		int i;
		switch (pattern) {
		case 0: i = regd[nregd - 1]; break;                 /* recently touched */
		case 1: i = regd[0]; break;
		case 2: { struct hent *t = htop(); i = t->idx; } break;   /* always the earliest */
		default: i = regd[(k * 7919u + 13) % nregd]; break;      /* scattered interior */
		}
		do_unregister(i);
	}
}

static void one_action(int self)
{
	switch (ch_n(10)) {
	case 0: case 1: case 2: { xkey e = draw_expiry(); int i = do_register(e); vz_log("  register t%d expires=now%+lld", i, (long long)(e - vk_now())); vz_hash_u(0x300); vz_hash_u((uint64_t)(e - vk_now())); } break;
	case 3: case 4: if (nregd) {
			int i;
			switch (ch_n(5)) {
			case 0: i = htop()->idx; break;
			case 1: i = regd[nregd - 1]; break;
			case 2: i = regd[0]; break;
			case 3: { /* one that is due (in the expired batch) if any */
				struct hent *t = htop(); i = t->idx; } break;
			default: i = regd[ch_n(nregd)]; break;
			}
			vz_log("  unregister t%d", i); vz_hash_u(0x400 + (i & 0xff));
			do_unregister(i);
		} break;
	case 5: bulk_register(); break;
	case 6: bulk_unregister(); break;
	case 7: { int64_t dt = (int64_t[]){ 1, 1000, 1000000, 50000000 }[ch_n(4)]; vk_advance(dt); iv_invalidate_now(); vz_log("  burn %lld", (long long)dt); vz_hash_u(0x500 + dt % 13); } break;
	default: break;
	}
	(void)self;
}

/* timers parked in the far future can never fire within a case: when nothing else is left, a handler takes them out */
static void unpark_if_only_parked(void)
{
	struct hent *top = htop();
	if (!top || top->expires < (xkey)vk_now() + FAR_NS) return;
	vz_log("  only parked timers left (%d): unregister them", nregd);
	while (nregd) do_unregister(regd[nregd - 1]);
}
static void timer_cb(void *cookie)
{
	int i = (int)(intptr_t)cookie;
	struct tmr *t = &tms[i];
	depth++;
	if (!in_main) FAIL("callback-outside-main", "timer handler outside iv_main");
	if (i < 0 || i >= ntm || !t->registered) FAIL("fired-not-registered", "handler of timer t%d ran although it is not registered (twice, or after unregister)", i);
	if (iv_timer_registered(t->iv)) FAIL("registered-on-entry", "t%d still registered on handler entry", i);
	if (vk_last_reading() < t->expires) FAIL("early", "t%d fired %lld ns early", i, (long long)(t->expires - vk_last_reading()));
	/* order: no live timer with a strictly smaller expiry that was registered before this round may be waiting */
	struct hent *top = htop();
	while (top && top->idx == i) { hpop(); top = htop(); }
	if (top && top->expires < t->expires && tms[top->idx].reg_round < round_id)
		FAIL("order", "t%d (expires %lld) ran while t%d (expires %lld, registered in an earlier round) is still waiting", i, (long long)t->expires, top->idx, (long long)top->expires);
	/* lateness: number of wait entries at which it was registered and due must be <= 1 */
	unsigned long lo = t->reg_entry, hi = nentry;   /* entries are numbered 0..nentry-1; consider entries with index >= reg_entry */
	unsigned long a = lo, b = hi;
	while (a < b) { unsigned long m = (a + b) / 2; if (entry_time[m] >= t->expires) b = m; else a = m + 1; }
	unsigned long due_entries = hi - a;
	if (due_entries > 1) FAIL("late", "t%d (expires %lld) was due at %lu consecutive wait entries before it fired", i, (long long)t->expires, due_entries);
	if (ntm < 400) vz_log("round %lu: t%d fires (expires=%lld)", round_id, i, (long long)t->expires);
	forget(i);
	if (handler_actions_left > 0) { handler_actions_left--; int n = ch_n(3); for (int k = 0; k < n; k++) one_action(i); }
	unpark_if_only_parked();
	depth--;
}

/* ------------------------------------------------------------------ hooks */
static void hook_wait_entry(struct vk_wait *w)
{
	if (!in_main) return;
	if (nentry == capentry) { capentry = capentry ? capentry * 2 : 4096; entry_time = realloc(entry_time, capentry * sizeof *entry_time); }
	entry_time[nentry++] = vk_now();
	round_id++;
	if (nregd == 0) FAIL("should-have-returned", "loop waits with no timer registered");
	struct hent *top = htop();
	if (top && top->expires <= vk_now()) {
		if (last_due_min == top->idx && last_due_gen == top->gen)
			FAIL("due-timer-not-fired", "earliest timer t%d (expires %lld) due at two consecutive wait entries and not fired", top->idx, (long long)top->expires);
		last_due_min = top->idx; last_due_gen = top->gen;
	} else last_due_min = -1;
	(void)w;
}
static int hook_wait_block(struct vk_wait *w)
{
	if (!in_main) return VK_SLEEP;
	struct hent *top = htop();
	if (top) {
		int64_t slack = (w->prim == VK_EPOLL_WAIT || w->prim == VK_POLL) ? 1000000 : 0;
		int64_t lr = vk_last_reading();
		if (lr >= 0 && w->entry_now > lr) slack += w->entry_now - lr;
		if (w->deadline == VK_INF || w->deadline > top->expires + slack)
			FAIL("oversleep", "loop blocks %s although the earliest timer t%d expires at now%+lld ns (population %d)", w->deadline == VK_INF ? "forever" : "past it", top->idx, (long long)(top->expires - vk_now()), population);
	}
	return VK_SLEEP;
}
static void hook_quiescent(struct vk_wait *w)
{
	(void)w;
	FAIL("hang", "loop blocks forever with %d timers registered", nregd);
	vz_fail(vz_prop, "hang", "loop blocks forever");
	_exit(3);
}
static int spin;
static void hook_wait_return(struct vk_wait *w, int n)
{
	if (!in_main) return;
	if (n == 0 && vk_now() == w->entry_now) { if (++spin > 50) FAIL("spin", "loop spins without time passing"); }
	else spin = 0;
}
static int hook_sysfault(int sys, unsigned long k) { (void)sys; (void)k; return 0; }

static const char *excl[4] = { "", "epoll-timerfd", "epoll-timerfd epoll", "epoll-timerfd epoll ppoll" };

void target_run(void)
{
	tms = calloc(MAXT, sizeof *tms); regd = calloc(MAXT, sizeof *regd); regpos = calloc(MAXT, sizeof *regpos);
	cfg_method = ch_n(4);
	setenv("IV_EXCLUDE_POLL_METHOD", excl[cfg_method], 1);
	vz_label(L_M0 + cfg_method);
	handler_actions_left = 30 + ch_n(200);
	vk_reset();
	vk_hooks.wait_entry = hook_wait_entry; vk_hooks.wait_block = hook_wait_block; vk_hooks.quiescent = hook_quiescent;
	vk_hooks.wait_return = hook_wait_return; vk_hooks.sysfault = hook_sysfault;
	vk_active = 1; { extern int vlock_active; vlock_active = 1; }
	iv_set_fatal_msg_handler(fatal_handler);
	iv_init();
	vz_log("method=%s", iv_poll_method_name());
	int large = vz_param_l("large", 0);
	for (int round = 0; round < 3; round++) {
		vz_log("setup %d:", round);
		if (large && round == 0) { bulk_register(); }
		int n = 1 + ch_n(12);
		for (int k = 0; k < n; k++) one_action(-1);
		{ struct hent *top = htop(); if (top && top->expires >= (xkey)vk_now() + FAR_NS) { vz_log("  (janitor timer)"); do_register((xkey)vk_now() + 1000); } }
		in_main = 1;
		iv_main();
		in_main = 0;
		if (nregd) FAIL("early-return", "iv_main returned with %d timers registered", nregd);
		vz_log("iv_main returned; %d timers created so far, max population %d", ntm, maxpop);
		if (ch_exhausted()) break;
	}
	iv_deinit();
	vk_active = 0;
	vz_count(0, ntm); vz_count(1, maxpop); vz_count(2, nentry);
	int crossed = vz_has_label(L_CROSS128_UP) || vz_has_label(L_CROSS128_DOWN) || vz_has_label(L_CROSS16K_UP) || vz_has_label(L_CROSS16K_DOWN);
	if (interior_removals > 0 && crossed) vz_nontrivial();
}

size_t target_gen(uint64_t seed, uint64_t index, uint8_t *buf, size_t cap)
{
	struct vz_rng r; rng_seed(&r, seed, index);
	return vz_gen_default(&r, buf, cap, 12, 600);
}
