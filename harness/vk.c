#ifndef _GNU_SOURCE
#define _GNU_SOURCE
#endif
#include "vk.h"
#include <errno.h>
#include <stdarg.h>
#include <stdio.h>
#include <stdlib.h>
#include <string.h>
#include <unistd.h>
#include <fcntl.h>
#include <pthread.h>
#include <sys/eventfd.h>
#include <sys/syscall.h>
#include <sys/timerfd.h>

const char *vk_prim_name[VK_NPRIM] = { "epoll_wait", "epoll_pwait2", "poll", "ppoll" };
const char *vk_sys_name[VKS_N] = { "epoll_create1", "epoll_create", "epoll_pwait2", "timerfd_create", "ppoll",
	"eventfd2", "eventfd", "pipe", "pipe2", "epoll_ctl", "epoll_wait", "poll", "timerfd_settime", "splice", "inotify_init" };

struct vk_hooks vk_hooks;
int vk_active;

static int64_t vnow = 1000 * VK_NS;
static __thread int64_t last_reading = -1;
static __thread unsigned long wait_seq;
static unsigned long prim_cnt[VK_NPRIM];
static unsigned long sys_cnt[VKS_N];

#define MAXTFD 64
static struct { int fd; int armed; int64_t deadline; pthread_t owner; } tfds[MAXTFD];
static int ntfd;

int __real_clock_gettime(clockid_t, struct timespec *);
int __real_epoll_wait(int, struct epoll_event *, int, int);
int __real_epoll_pwait2(int, struct epoll_event *, int, const struct timespec *, const sigset_t *);
int __real_poll(struct pollfd *, nfds_t, int);
int __real_ppoll(struct pollfd *, nfds_t, const struct timespec *, const sigset_t *);
int __real_epoll_ctl(int, int, int, struct epoll_event *);
int __real_epoll_create(int);
int __real_timerfd_create(int, int);
int __real_timerfd_settime(int, int, const struct itimerspec *, struct itimerspec *);
long __real_syscall(long, ...);
int __real_pipe(int[2]);
int __real_close(int);
ssize_t __real_read(int, void *, size_t);
ssize_t __real_write(int, const void *, size_t);

void vk_reset(void)
{
	vnow = 1000 * VK_NS; last_reading = -1; wait_seq = 0; ntfd = 0;
	memset(prim_cnt, 0, sizeof prim_cnt); memset(sys_cnt, 0, sizeof sys_cnt);
}
int64_t vk_now(void) { return vnow; }
int64_t vk_last_reading(void) { return last_reading; }
unsigned long vk_wait_count(int p) { return prim_cnt[p]; }
unsigned long vk_sys_count(int s) { return sys_cnt[s]; }
int vk_tfd_count(void) { return ntfd; }
int vk_is_tfd(int fd) { for (int i = 0; i < ntfd; i++) if (tfds[i].fd == fd) return 1; return 0; }

static void tfd_fire(int i)
{
	uint64_t one = 1;
	tfds[i].armed = 0;
	/* raw system call: read/write may be interposed by the scheduler engine */
	__real_syscall(SYS_write, (long)tfds[i].fd, (long)&one, 8L);
}
void vk_advance_to(int64_t t)
{
	if (t > vnow) vnow = t;
	for (int i = 0; i < ntfd; i++)
		if (tfds[i].armed && tfds[i].deadline <= vnow) tfd_fire(i);
}
void vk_advance(int64_t dt) { vk_advance_to(vnow + dt); }
int64_t vk_tfd_deadline_any(void)
{
	int64_t d = VK_INF;
	for (int i = 0; i < ntfd; i++) if (tfds[i].armed && tfds[i].deadline < d) d = tfds[i].deadline;
	return d;
}
static int64_t tfd_deadline_mine(int *armed)
{
	int64_t d = VK_INF; *armed = 0;
	pthread_t me = pthread_self();
	for (int i = 0; i < ntfd; i++)
		if (tfds[i].armed && pthread_equal(tfds[i].owner, me)) { *armed = 1; if (tfds[i].deadline < d) d = tfds[i].deadline; }
	return d;
}

static int fault(int sys)
{
	unsigned long k = sys_cnt[sys]++;
	if (vk_hooks.sysfault) return vk_hooks.sysfault(sys, k);
	return 0;
}

/* ------------------------------------------------------------------ clock */
int __wrap_clock_gettime(clockid_t clk, struct timespec *ts)
{
	if (!vk_active) return __real_clock_gettime(clk, ts);
	if (vk_hooks.clock_incr) { int64_t d = vk_hooks.clock_incr(); if (d > 0) vk_advance(d); }
	last_reading = vnow;
	*ts = vk_ns_ts(vnow);
	return 0;
}

/* ------------------------------------------------------------------ waits */
struct pollctx { int prim; int epfd; struct epoll_event *ev; int maxev; struct pollfd *pfds; nfds_t npfds; };
static int poll0(struct pollctx *c)
{
	struct timespec z = { 0, 0 };
	int r;
	do {
		switch (c->prim) {
		case VK_EPOLL_WAIT: r = __real_epoll_wait(c->epfd, c->ev, c->maxev, 0); break;
		case VK_EPOLL_PWAIT2: r = __real_epoll_pwait2(c->epfd, c->ev, c->maxev, &z, NULL); break;
		case VK_POLL: r = __real_poll(c->pfds, c->npfds, 0); break;
		default: r = __real_ppoll(c->pfds, c->npfds, &z, NULL); break;
		}
	} while (r < 0 && errno == EINTR);   /* a real EINTR is not part of the generated history */
	return r;
}

static int do_wait(struct pollctx *c, int64_t timeout_ns, int faultsys)
{
	struct vk_wait w;
	memset(&w, 0, sizeof w);
	w.prim = c->prim; w.seq = wait_seq++; w.prim_seq = prim_cnt[c->prim]++;
	w.timeout_ns = timeout_ns; w.entry_now = vnow;
	w.epfd = (c->prim <= VK_EPOLL_PWAIT2) ? c->epfd : -1;
	w.pfds = c->pfds; w.npfds = (int)c->npfds; w.maxevents = c->maxev;

	int err = fault(faultsys);
	if (err) {
		if (vk_hooks.wait_error) vk_hooks.wait_error(&w, err);
		errno = err;
		return -1;
	}
	w.timeout_deadline = timeout_ns < 0 ? VK_INF : vnow + timeout_ns;
	w.tfd_deadline = tfd_deadline_mine(&w.tfd_armed);
	w.deadline = w.timeout_deadline < w.tfd_deadline ? w.timeout_deadline : w.tfd_deadline;
	if (vk_hooks.wait_entry) vk_hooks.wait_entry(&w);

	for (;;) {
		int r = poll0(c);
		if (r != 0) {
			if (r > 0 && vk_hooks.wait_return) vk_hooks.wait_return(&w, r);
			return r;            /* events, or a real error (EBADF...) passed through */
		}
		if (timeout_ns == 0) { if (vk_hooks.wait_return) vk_hooks.wait_return(&w, 0); return 0; }
		/* recompute: an environment event may have moved time; timerfds may have been fired */
		w.tfd_deadline = tfd_deadline_mine(&w.tfd_armed);
		w.deadline = w.timeout_deadline < w.tfd_deadline ? w.timeout_deadline : w.tfd_deadline;
		if (w.deadline <= vnow) {
			/* timeout reached while handling environment events */
			vk_advance_to(vnow);
			r = poll0(c);
			if (r >= 0 && vk_hooks.wait_return) vk_hooks.wait_return(&w, r);
			return r;
		}
		int act = vk_hooks.wait_block ? vk_hooks.wait_block(&w) : VK_SLEEP;
		if (act == VK_RETRY) continue;
		w.tfd_deadline = tfd_deadline_mine(&w.tfd_armed);
		w.deadline = w.timeout_deadline < w.tfd_deadline ? w.timeout_deadline : w.tfd_deadline;
		if (w.deadline == VK_INF) {
			if (vk_hooks.quiescent) vk_hooks.quiescent(&w);
			fprintf(stderr, "vk: quiescent wait with no hook\n");
			abort();
		}
		vk_advance_to(w.deadline);
		r = poll0(c);
		if (r >= 0 && vk_hooks.wait_return) vk_hooks.wait_return(&w, r);
		return r;
	}
}

int __wrap_epoll_wait(int epfd, struct epoll_event *ev, int maxev, int timeout)
{
	if (!vk_active) return __real_epoll_wait(epfd, ev, maxev, timeout);
	struct pollctx c = { VK_EPOLL_WAIT, epfd, ev, maxev, NULL, 0 };
	return do_wait(&c, timeout < 0 ? -1 : (int64_t)timeout * 1000000, VKS_EPOLL_WAIT);
}
int __wrap_epoll_pwait2(int epfd, struct epoll_event *ev, int maxev, const struct timespec *ts, const sigset_t *ss)
{
	if (!vk_active) return __real_epoll_pwait2(epfd, ev, maxev, ts, ss);
	struct pollctx c = { VK_EPOLL_PWAIT2, epfd, ev, maxev, NULL, 0 };
	return do_wait(&c, ts ? vk_ts_ns(ts) : -1, VKS_EPOLL_PWAIT2);
}
int __wrap_poll(struct pollfd *pfds, nfds_t n, int timeout)
{
	if (!vk_active) return __real_poll(pfds, n, timeout);
	/* zero-timeout probes (notify_fd_sync in iv_fd_register_try) are not loop waits */
	if (timeout == 0 && (!vk_hooks.poll_is_probe || vk_hooks.poll_is_probe())) return __real_poll(pfds, n, 0);
	struct pollctx c = { VK_POLL, -1, NULL, 0, pfds, n };
	return do_wait(&c, timeout < 0 ? -1 : (int64_t)timeout * 1000000, VKS_POLL);
}
int __wrap_ppoll(struct pollfd *pfds, nfds_t n, const struct timespec *ts, const sigset_t *ss)
{
	if (!vk_active) return __real_ppoll(pfds, n, ts, ss);
	struct pollctx c = { VK_PPOLL, -1, NULL, 0, pfds, n };
	return do_wait(&c, ts ? vk_ts_ns(ts) : -1, VKS_PPOLL);
}

/* ------------------------------------------------------------------ timerfd emulation */
int __wrap_timerfd_create(int clk, int flags)
{
	if (!vk_active) return __real_timerfd_create(clk, flags);
	int err = fault(VKS_TIMERFD_CREATE);
	if (err) { errno = err; return -1; }
	if (ntfd >= MAXTFD) { errno = EMFILE; return -1; }
	int fd = eventfd(0, EFD_CLOEXEC | EFD_NONBLOCK);
	if (fd < 0) return -1;
	tfds[ntfd].fd = fd; tfds[ntfd].armed = 0; tfds[ntfd].deadline = 0; tfds[ntfd].owner = pthread_self();
	ntfd++;
	return fd;
}
int __wrap_timerfd_settime(int fd, int flags, const struct itimerspec *nv, struct itimerspec *ov)
{
	if (!vk_active) return __real_timerfd_settime(fd, flags, nv, ov);
	for (int i = 0; i < ntfd; i++) {
		if (tfds[i].fd != fd) continue;
		int err = fault(VKS_TIMERFD_SETTIME);
		if (err) { errno = err; return -1; }
		uint64_t cnt;
		while (__real_syscall(SYS_read, (long)fd, (long)&cnt, 8L) == 8) ;      /* settime resets the expiration count */
		int64_t v = vk_ts_ns(&nv->it_value);
		if (!(flags & TFD_TIMER_ABSTIME) && v) v += vnow;
		tfds[i].armed = v != 0; tfds[i].deadline = v;
		if (vk_hooks.tfd_set) vk_hooks.tfd_set(fd, v ? v : VK_INF);
		if (tfds[i].armed && v <= vnow) tfd_fire(i);
		return 0;
	}
	return __real_timerfd_settime(fd, flags, nv, ov);
}
int __wrap_close(int fd)
{
	if (vk_active)
		for (int i = 0; i < ntfd; i++)
			if (tfds[i].fd == fd) { tfds[i] = tfds[--ntfd]; break; }
	int r = __real_close(fd);
	if (r < 0 && vk_active && vk_hooks.close_failed) { int e = errno; vk_hooks.close_failed(fd, e); errno = e; }
	return r;
}

/* ------------------------------------------------------------------ optional system calls */
int __wrap_epoll_create(int sz)
{
	if (vk_active) { int err = fault(VKS_EPOLL_CREATE); if (err) { errno = err; return -1; } }
	return __real_epoll_create(sz);
}
int __wrap_epoll_ctl(int epfd, int op, int fd, struct epoll_event *ev)
{
	if (vk_active) {
		if (vk_hooks.epoll_ctl_pre) vk_hooks.epoll_ctl_pre(epfd, op, fd);
		int err = fault(VKS_EPOLL_CTL); if (err) { errno = err; return -1; }
	}
	return __real_epoll_ctl(epfd, op, fd, ev);
}
int __wrap_pipe(int p[2])
{
	if (vk_active) { int err = fault(VKS_PIPE); if (err) { errno = err; return -1; } }
	return __real_pipe(p);
}
long __wrap_syscall(long nr, ...)
{
	va_list ap; va_start(ap, nr);
	/* only the 5 register-passed variadic slots are read: a 6th would come from the caller's stack frame */
	long a = va_arg(ap, long), b = va_arg(ap, long), c = va_arg(ap, long), d = va_arg(ap, long), e = va_arg(ap, long), f = 0;
	va_end(ap);
	if (vk_active) {
		int s = -1;
		if (nr == SYS_epoll_create1) s = VKS_EPOLL_CREATE1;
		else if (nr == SYS_eventfd2) s = VKS_EVENTFD2;
#ifdef SYS_eventfd
		else if (nr == SYS_eventfd) s = VKS_EVENTFD;
#endif
		else if (nr == SYS_pipe2) s = VKS_PIPE2;
		if (s >= 0) { int err = fault(s); if (err) { errno = err; return -1; } }
	}
	return __real_syscall(nr, a, b, c, d, e, f);
}

/* ------------------------------------------------------------------ descriptor I/O (observation / yield points only) */
ssize_t __wrap_read(int fd, void *buf, size_t n)
{
	if (vk_active && vk_hooks.io_pre) vk_hooks.io_pre(0, fd, n);
	ssize_t r = __real_read(fd, buf, n);
	if (vk_active && vk_hooks.read_post) { int e = errno; vk_hooks.read_post(fd, buf, r); errno = e; }
	return r;
}
ssize_t __wrap_write(int fd, const void *buf, size_t n)
{
	if (vk_active && vk_hooks.io_pre) vk_hooks.io_pre(1, fd, n);
	ssize_t r = __real_write(fd, buf, n);
	if (vk_active && vk_hooks.io_post) { int e = errno; vk_hooks.io_post(1, fd, r); errno = e; }
	return r;
}
