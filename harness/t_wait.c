/*
 * t_wait -- C11: iv_wait with a population of VIRTUAL children (fork / wait4 / kill interposed),
 * on engine B (1-2 owner loops under generated schedules).  The harness raises real SIGCHLD
 * signals; what wait4() hands to the library is recorded and is the reference for what each
 * interest must be told.
 */
#ifndef _GNU_SOURCE
#define _GNU_SOURCE
#endif
#include "vfz.h"
#include "vk.h"
#include "vsched.h"
#include <errno.h>
#include <fcntl.h>
#include <pthread.h>
#include <signal.h>
#include <stdio.h>
#include <stdlib.h>
#include <string.h>
#include <unistd.h>
#include <sys/resource.h>
#include <sys/wait.h>
#include <iv.h>
#include <iv_wait.h>

const char *target_name = "wait";

enum { L_STRANGER_DIES, L_TWO_QUEUED, L_PID_REUSE, L_SPAWN_EXITS_AT_ONCE, L_UNREG_IN_HANDLER, L_KILL_HELPER, L_KILL_AFTER_DEATH, L_STOP_CONT, L_TWO_THREADS,
       L_REGISTER_EXISTING, L_CROSS_THREAD_DELIVERY, L_M0, L_M1, L_M2, L_M3, L_UNREG_WITH_PENDING, L_MANY_IN_ONE_SIGCHLD, L_STRANGER_FIRST, L_KILL_RACES_REAP };

#define FAILC(tag, ...) vz_fail("C11", tag, __VA_ARGS__)
static void fail_any(const char *tag, const char *fmt, ...)
{
	char msg[700]; va_list ap; va_start(ap, fmt); vsnprintf(msg, sizeof msg, fmt, ap); va_end(ap);
	char p[8]; strncpy(p, vz_prop, 3); p[3] = 0;
	vz_fail(p, tag, "%s", msg);
}
static void fatal_handler(const char *msg) { fail_any("fatal", "iv_fatal: %s", msg); _exit(3); }

/* ------------------------------------------------------------------ virtual children */
#define MAXCH 24
#define MAXQ 8
enum { CS_FREE, CS_RUNNING, CS_STOPPED, CS_ZOMBIE };
struct vchild { int pid, state; int q[MAXQ], nq; int reaped_terminal; int owed_reap; struct mint *interest; };
static struct vchild ch[MAXCH]; static int next_pid = 5000;
static int reuse_pool[MAXCH], nreuse;
static __thread int virtual_fork_mode;      /* what the next library fork() of this thread creates: 0 lives on, 1 exits at once */

#define ST_EXIT(c) ((c) << 8)
#define ST_KILLED(s) (s)
#define ST_STOPPED(s) (((s) << 8) | 0x7f)
#define ST_CONT 0xffff
static int st_terminal(int st) { return WIFEXITED(st) || (WIFSIGNALED(st) && !WIFCONTINUED(st)); }

#define MAXOWN 2
#define MAXI 6
#define MAXEXP 16
struct mint {
	struct iv_wait_interest *iv; int owner, idx, pid; int registered, spawning, dead;
	int exp[MAXEXP], nexp, ndel; int unreg_in_handler_at;
};
struct owner { int slot, in_main, shutdown_done; long budget; struct mint is[MAXI]; struct iv_timer shutdown_timer, act_timer; int act_armed, act_rounds; };
static struct owner own[MAXOWN]; static int nown;
static int libcalls;      /* library calls on iv_wait under way (register/unregister/spawn): expectations are not judged meanwhile */

static int n_registered_interests(void) { int n = 0; for (int o = 0; o < nown; o++) for (int i = 0; i < MAXI; i++) n += own[o].is[i].registered && !own[o].is[i].spawning; return n; }
static struct vchild *child_by_pid(int pid) { for (int i = 0; i < MAXCH; i++) if (ch[i].state != CS_FREE && ch[i].pid == pid) return &ch[i]; return NULL; }
static struct vchild *new_child(void)
{
	for (int i = 0; i < MAXCH; i++) if (ch[i].state == CS_FREE) {
		memset(&ch[i], 0, sizeof ch[i]);
		if (nreuse && ch_n(2)) { ch[i].pid = reuse_pool[--nreuse]; vz_label(L_PID_REUSE); }
		else ch[i].pid = next_pid++;
		ch[i].state = CS_RUNNING;
		return &ch[i];
	}
	return NULL;
}
static int n_registered_interests(void);
static void queue_status(struct vchild *c, int st)
{
	if (c->nq >= MAXQ) return;
	c->q[c->nq++] = st;
	/* with a wait interest registered (so the SIGCHLD reaches a loop) every change must get reaped, interest or not */
	if (n_registered_interests() > 0 && libcalls == 0) c->owed_reap = 1;
	if (c->nq >= 2) vz_label(L_TWO_QUEUED);
}
/* a state change of a virtual child; the SIGCHLD is received by the calling thread */
static void child_event(struct vchild *c, int what)
{
	int changed = 0;
	switch (what) {
	case 0: if (c->state == CS_RUNNING || c->state == CS_STOPPED) { queue_status(c, ST_EXIT(ch_n(3))); c->state = CS_ZOMBIE; changed = 1; } break;
	case 1: if (c->state == CS_RUNNING || c->state == CS_STOPPED) { queue_status(c, ST_KILLED(SIGKILL)); c->state = CS_ZOMBIE; changed = 1; } break;
	case 2: if (c->state == CS_RUNNING) { queue_status(c, ST_STOPPED(SIGSTOP)); c->state = CS_STOPPED; changed = 1; vz_label(L_STOP_CONT); } break;
	case 3: if (c->state == CS_STOPPED) { queue_status(c, ST_CONT); c->state = CS_RUNNING; changed = 1; vz_label(L_STOP_CONT); } break;
	}
	if (changed) {
		vz_log("[T%d] child %d: %s%s", sched_self(), c->pid, (const char *[]){ "exits", "is killed", "stops", "continues" }[what], c->interest ? "" : " (nobody is interested in it)");
		vz_hash_u(0x100 + what);
		if (!c->interest && c->state == CS_ZOMBIE) vz_label(L_STRANGER_DIES);
		raise(SIGCHLD);
	}
}

/* ------------------------------------------------------------------ interposed process calls */
pid_t __real_fork(void);
pid_t __real_wait4(pid_t, int *, int, struct rusage *);
int __real_kill(pid_t, int);
static int virt_active;
static __thread struct mint *spawning_interest;

pid_t __wrap_fork(void)
{
	if (!virt_active) return __real_fork();
	struct vchild *c = new_child();
	if (!c) { errno = EAGAIN; return -1; }
	c->interest = spawning_interest;
	if (spawning_interest) spawning_interest->pid = c->pid;
	vz_log("[T%d] fork() -> virtual child %d%s", sched_self(), c->pid, virtual_fork_mode ? " which exits at once" : "");
	if (virtual_fork_mode == 1) { vz_label(L_SPAWN_EXITS_AT_ONCE); queue_status(c, ST_EXIT(0)); c->state = CS_ZOMBIE; raise(SIGCHLD); }
	return c->pid;
}
pid_t __wrap_wait4(pid_t pid, int *status, int options, struct rusage *ru)
{
	if (!virt_active) return __real_wait4(pid, status, options, ru);
	if (pid != -1 || !(options & WNOHANG)) fail_any("wait4-args", "library called wait4(%d, options=%d)", pid, options);
	int cand[MAXCH], n = 0, any = 0;
	for (int i = 0; i < MAXCH; i++) if (ch[i].state != CS_FREE) { any = 1; if (ch[i].nq) cand[n++] = i; }
	if (!n) { if (!any) { errno = ECHILD; return -1; } return 0; }
	if (n >= 3) vz_label(L_MANY_IN_ONE_SIGCHLD);
	struct vchild *c = &ch[cand[ch_n(n)]];
	int st = c->q[0];
	memmove(c->q, c->q + 1, --c->nq * sizeof c->q[0]);
	if (!c->nq) c->owed_reap = 0;
	if (status) *status = st;
	if (ru) memset(ru, 0, sizeof *ru);
	int rpid = c->pid;
	struct mint *m = c->interest;
	vz_log("[T%d] wait4 -> pid %d status 0x%x%s", sched_self(), rpid, st, m ? "" : " (no interest)");
	if (m && m->registered && !m->dead) {
		if (m->nexp < MAXEXP) m->exp[m->nexp++] = st;
		if (m->owner >= 0 && own[m->owner].slot != sched_self()) vz_label(L_CROSS_THREAD_DELIVERY);
	}
	if (st_terminal(st)) {
		/* the child is gone: its pid may be handed out again from now on */
		if (m) { m->dead = 1; }
		c->state = CS_FREE; c->interest = NULL;
		if (nreuse < MAXCH) reuse_pool[nreuse++] = rpid;
	}
	return rpid;
}
static int reaped_pids[256]; static int nreaped;
int __wrap_kill(pid_t pid, int sig)
{
	if (!virt_active || pid < 5000) return __real_kill(pid, sig);
	struct vchild *c = child_by_pid(pid);
	vz_log("[T%d] kill(%d, %d)", sched_self(), pid, sig);
	if (!c) {
		FAILC("kill-reaped-pid", "the library sent signal %d to pid %d, whose termination it has already reaped (the pid may belong to somebody else by now)", sig, pid);
		errno = ESRCH; return -1;
	}
	if (c->state == CS_ZOMBIE) return 0;     /* signalling a zombie succeeds and does nothing */
	if (sig == SIGKILL || sig == SIGTERM) child_event(c, sig == SIGKILL ? 1 : 0);
	else if (sig == SIGSTOP) child_event(c, 2);
	else if (sig == SIGCONT) child_event(c, 3);
	return 0;
}

/* ------------------------------------------------------------------ interests */
void owner_actions(struct owner *o, int nmax);
static void wait_handler(void *cookie, int status, const struct rusage *ru)
{
	struct mint *m = cookie;
	int me = sched_self();
	(void)ru;
	vz_log("[T%d] handler interest %d.%d pid %d status 0x%x", me, m->owner, m->idx, m->pid, status);
	if (!m->registered) { vz_fail("C01", "callback-after-unregister", "wait interest handler ran after iv_wait_interest_unregister returned"); FAILC("callback-after-unregister", "handler of unregistered wait interest ran (pid %d status 0x%x)", m->pid, status); }
	if (me != own[m->owner].slot) FAILC("wrong-thread", "interest %d.%d handler ran in T%d, registered in T%d", m->owner, m->idx, me, own[m->owner].slot);
	if (m->ndel >= m->nexp) FAILC("unexpected-status", "interest %d.%d (pid %d) was told status 0x%x, but wait4 returned no such change for its child (%d delivered, %d reaped)", m->owner, m->idx, m->pid, status, m->ndel, m->nexp);
	if (m->exp[m->ndel] != status) FAILC("wrong-status-or-order", "interest %d.%d (pid %d): delivery #%d is 0x%x, reaped change #%d was 0x%x", m->owner, m->idx, m->pid, m->ndel, status, m->ndel, m->exp[m->ndel]);
	m->ndel++;
	struct owner *o = &own[m->owner];
	if ((st_terminal(status) && ch_n(3)) || ch_n(5) == 0) {
		extern void int_unregister(struct owner *o, int i);
		vz_label(L_UNREG_IN_HANDLER);
		int_unregister(o, m->idx);
	}
	owner_actions(o, 2);
}
static void int_prepare(struct owner *o, int i)
{
	struct mint *m = &o->is[i];
	memset(m, 0, sizeof *m);
	m->iv = malloc(sizeof *m->iv); memset(m->iv, 0xA5, sizeof *m->iv);
	IV_WAIT_INTEREST_INIT(m->iv);
	m->owner = (int)(o - own); m->idx = i;
	m->iv->cookie = m; m->iv->handler = wait_handler;
}
static void int_spawn(struct owner *o, int i)
{
	struct mint *m = &o->is[i];
	int_prepare(o, i);
	virtual_fork_mode = ch_n(3) == 0;
	vz_log("[T%d] interest %d.%d: register_spawn", sched_self(), m->owner, i);
	vz_hash_u(0x200 + virtual_fork_mode);
	m->registered = 1; m->spawning = 1; spawning_interest = m; libcalls++;
	int r = iv_wait_interest_register_spawn(m->iv, (void (*)(void *))abort, NULL);
	libcalls--; spawning_interest = NULL; m->spawning = 0; virtual_fork_mode = 0;
	if (r < 0) { m->registered = 0; free(m->iv); m->iv = NULL; return; }
	if (m->iv->pid != m->pid) fail_any("spawn-pid", "register_spawn recorded pid %d, fork returned %d", m->iv->pid, m->pid);
}
static void int_register_existing(struct owner *o, int i)
{
	/* an interest for a child that already exists and that nobody watches yet */
	struct vchild *c = NULL;
	for (int k = 0; k < MAXCH; k++) if (ch[k].state != CS_FREE && !ch[k].interest && !ch[k].reaped_terminal) { c = &ch[k]; if (ch_n(2)) break; }
	if (!c) return;
	struct mint *m = &o->is[i];
	int_prepare(o, i);
	m->pid = c->pid; m->iv->pid = c->pid;
	vz_label(L_REGISTER_EXISTING);
	vz_log("[T%d] interest %d.%d: register for existing child %d (state %d, %d changes queued)", sched_self(), m->owner, i, c->pid, c->state, c->nq);
	vz_hash_u(0x300);
	/* until the call has returned nothing is owed: a change reaped meanwhile may or may not find the interest */
	libcalls++;
	iv_wait_interest_register(m->iv);
	libcalls--;
	if (c->state != CS_FREE && c->pid == m->pid && !c->interest) { c->interest = m; m->registered = 1; }
	else { /* the child was reaped while we were registering: the interest will never hear anything; take it out again */
		m->registered = 1; m->dead = 1;
	}
}
void int_unregister(struct owner *o, int i)
{
	struct mint *m = &o->is[i];
	if (!m->registered) return;
	if (m->ndel < m->nexp) vz_label(L_UNREG_WITH_PENDING);
	vz_log("[T%d] interest %d.%d (pid %d): unregister", sched_self(), m->owner, i, m->pid);
	vz_hash_u(0x400);
	m->registered = 0;
	struct vchild *c = child_by_pid(m->pid);
	if (c && c->interest == m) c->interest = NULL;
	/* with the last interest the SIGCHLD interest goes away, and with it any notification that was still on its way.  "Last" is
	 * judged when the call begins: an interest whose registration (in another thread) only completes while this call is under way
	 * may or may not be there yet when the library looks for somebody to hand the pending notification to */
	int others_before = n_registered_interests();
	libcalls++;
	iv_wait_interest_unregister(m->iv);
	libcalls--;
	if (others_before == 0 || n_registered_interests() == 0) for (int k = 0; k < MAXCH; k++) ch[k].owed_reap = 0;
	memset(m->iv, 0x5A, sizeof *m->iv); free(m->iv); m->iv = NULL;
}
static __thread int kill_bias;
static void on_point(const char *why) { if (kill_bias && !strcmp(why, "mutex_lock")) { kill_bias = 0; if (sched_other_runnable()) sched_yield_to_others("kill-helper-at-lock"); } }
static void int_kill(struct owner *o, int i)
{
	struct mint *m = &o->is[i];
	if (!m->registered || m->spawning) return;
	int sig = (int[]){ SIGTERM, SIGKILL, SIGSTOP, SIGCONT }[ch_n(4)];
	int was_dead = m->dead;
	vz_label(L_KILL_HELPER); if (was_dead) vz_label(L_KILL_AFTER_DEATH);
	vz_hash_u(0x500 + sig);
	/* the child has terminated but is not reaped yet and another thread may be about to reap it: have that thread run as soon as
	 * the helper reaches its first synchronisation point (a generated schedule finds this window too, only far less often) */
	{ struct vchild *c = child_by_pid(m->pid); if (c && c->state == CS_ZOMBIE && nown > 1 && ch_n(2)) { kill_bias = 1; vz_label(L_KILL_RACES_REAP); } }
	int r = iv_wait_interest_kill(m->iv, sig);
	kill_bias = 0;
	vz_log("[T%d] interest %d.%d: kill helper(sig %d) -> %d", sched_self(), m->owner, i, sig, r);
	if (was_dead && r != -ESRCH) FAILC("kill-helper-result", "iv_wait_interest_kill on a reaped child returned %d, expected -ESRCH", r);
}

static void check_expectations(const char *where)
{
	if (libcalls > 0) return;
	if (n_registered_interests() > 0)
		for (int k = 0; k < MAXCH; k++) if (ch[k].state != CS_FREE && ch[k].nq && ch[k].owed_reap)
			FAILC("not-reaped", "%s: child %d has %d state change(s) that were never collected although wait interests are registered", where, ch[k].pid, ch[k].nq);
	for (int o = 0; o < nown; o++) for (int i = 0; i < MAXI; i++) {
		struct mint *m = &own[o].is[i];
		if (m->registered && m->ndel < m->nexp)
			FAILC("status-not-delivered", "%s: interest %d.%d (pid %d) has been told %d of the %d state changes that wait4 returned for its child (next: 0x%x)", where, o, i, m->pid, m->ndel, m->nexp, m->exp[m->ndel]);
	}
}

/* ------------------------------------------------------------------ owners */
static int any_interest(struct owner *o) { for (int i = 0; i < MAXI; i++) if (o->is[i].registered) return 1; return 0; }
static void owner_shutdown(struct owner *o)
{
	if (o->shutdown_done) return;
	o->shutdown_done = 1;
	vz_log("[T%d] owner%d shuts down", sched_self(), (int)(o - own));
	for (int i = 0; i < MAXI; i++) if (o->is[i].registered) int_unregister(o, i);
	if (o->act_armed) { iv_timer_unregister(&o->act_timer); o->act_armed = 0; }
	if (iv_timer_registered(&o->shutdown_timer)) iv_timer_unregister(&o->shutdown_timer);
}
static void shutdown_cb(void *c) { owner_shutdown(c); }
static void act_cb(void *c);
static void arm_act(struct owner *o)
{
	if (o->act_armed || o->shutdown_done || o->act_rounds <= 0) return;
	o->act_rounds--;
	IV_TIMER_INIT(&o->act_timer);
	iv_validate_now();
	o->act_timer.expires = vk_ns_ts(vk_ts_ns(&iv_now) + 1000000); o->act_timer.cookie = o; o->act_timer.handler = act_cb;
	iv_timer_register(&o->act_timer); o->act_armed = 1;
}
void owner_actions(struct owner *o, int nmax)
{
	if (o->shutdown_done || o->budget <= 0) return;
	int n = ch_n(nmax + 1);
	for (int k = 0; k < n && !o->shutdown_done; k++) {
		o->budget--;
		int i = ch_n(MAXI);
		switch (ch_n(12)) {
		case 0: case 1: if (!o->is[i].registered) int_spawn(o, i); break;
		case 2: { struct vchild *c = new_child(); if (c) { vz_log("[T%d] a child %d appears that nobody watches", sched_self(), c->pid); vz_hash_u(0x600); if (!any_interest(&own[0]) && !any_interest(&own[nown - 1])) vz_label(L_STRANGER_FIRST); } } break;
		case 3: if (!o->is[i].registered && nown == 1) int_register_existing(o, i); break;   /* (with two loops the outcome of racing a reap is undefined) */
		case 4: if (o->is[i].registered && ch_n(2)) int_unregister(o, i); break;
		case 5: int_kill(o, i); break;
		case 6: case 7: case 8: case 9: { /* a child changes state */
			int cand[MAXCH], nc = 0;
			for (int k2 = 0; k2 < MAXCH; k2++) if (ch[k2].state == CS_RUNNING || ch[k2].state == CS_STOPPED) cand[nc++] = k2;
			if (nc) child_event(&ch[cand[ch_n(nc)]], ch_n(4));
		} break;
		case 10: sched_point("action-yield"); break;
		default: break;
		}
	}
	arm_act(o);
}
static void act_cb(void *c) { struct owner *o = c; o->act_armed = 0; owner_actions(o, 3); }
static void owner_setup(struct owner *o)
{
	o->slot = sched_self(); o->budget = 15 + ch_n(60); o->act_rounds = 2 + ch_n(10);
	IV_TIMER_INIT(&o->shutdown_timer);
	iv_validate_now();
	o->shutdown_timer.expires = iv_now; o->shutdown_timer.expires.tv_sec += 60; o->shutdown_timer.cookie = o; o->shutdown_timer.handler = shutdown_cb;
	iv_timer_register(&o->shutdown_timer);
	owner_actions(o, 4);
	arm_act(o);
}
static void *owner1_main(void *arg)
{
	struct owner *o = arg;
	iv_init();
	owner_setup(o);
	o->in_main = 1; iv_main(); o->in_main = 0;
	if (!o->shutdown_done) fail_any("early-return", "owner1 iv_main returned early");
	iv_deinit();
	return NULL;
}

/* ------------------------------------------------------------------ hooks */
static struct owner *owner_of_slot(int s) { for (int i = 0; i < nown; i++) if (own[i].slot == s) return &own[i]; return NULL; }
static int hook_wait_block(struct vk_wait *w)
{
	struct owner *o = owner_of_slot(sched_self());
	if (o && o->in_main && sched_all_others_parked()) check_expectations("a loop blocks with every other thread parked");
	return sched_block_wait(w);
}
static void on_idle(void) { if (sched_all_others_parked()) check_expectations("every thread is parked"); }
static void on_deadlock(const char *d) { check_expectations("deadlock"); fail_any("deadlock", "all threads blocked for good: %s", d); _exit(3); }
static void hook_epoll_ctl_pre(int epfd, int op, int fd) { (void)epfd; (void)op; (void)fd; sched_point("epoll_ctl"); }
static const char *excl[4] = { "", "epoll-timerfd", "epoll-timerfd epoll", "epoll-timerfd epoll ppoll" };

void target_run(void)
{
	int method = ch_n(4);
	nown = 1 + (ch_n(3) == 0);
	setenv("IV_EXCLUDE_POLL_METHOD", excl[method], 1);
	vz_label(L_M0 + method); if (nown > 1) vz_label(L_TWO_THREADS);
	vz_hash_u(method * 4 + nown);
	vz_log("config: method=%d owners=%d", method, nown);
	vk_reset();
	vk_hooks.wait_block = hook_wait_block; vk_hooks.epoll_ctl_pre = hook_epoll_ctl_pre; vk_hooks.io_pre = sched_io_pre; vk_hooks.io_post = sched_io_post;
	vk_active = 1; virt_active = 1;
	sched_on_deadlock = on_deadlock; sched_on_idle = on_idle; sched_on_point = on_point;
	iv_set_fatal_msg_handler(fatal_handler);
	sched_init();
	iv_init();
	own[0].slot = 0;
	if (nown > 1) { sched_spawn(owner1_main, &own[1]); while (!own[1].slot) sched_yield_to_others("wait-owner1"); }
	owner_setup(&own[0]);
	own[0].in_main = 1; iv_main(); own[0].in_main = 0;
	if (!own[0].shutdown_done) fail_any("early-return", "owner0 iv_main returned early");
	iv_deinit();
	sched_finish();
	vk_active = 0; virt_active = 0;
	check_expectations("at the end");
	vz_count(0, sched_step); vz_count(1, sched_switches);
	if (vz_has_label(L_STRANGER_DIES) || vz_has_label(L_TWO_QUEUED) || vz_has_label(L_PID_REUSE)) vz_nontrivial();
}

extern uint8_t *vz_gen2_buf; extern size_t vz_gen2_len;
size_t target_gen(uint64_t seed, uint64_t index, uint8_t *buf, size_t cap)
{
	struct vz_rng r; rng_seed(&r, seed, index);
	size_t n = vz_gen_default(&r, buf, cap, 16, 300);
	static uint8_t sch[2048];
	size_t sl = 32 + rng_n(&r, sizeof sch - 32);
	unsigned density = (unsigned[]){ 0, 3, 10, 30 }[rng_n(&r, 4)];
	for (size_t i = 0; i < sl; i++) sch[i] = rng_n(&r, 100) < density ? 1 + rng_n(&r, 7) : 0;
	vz_gen2_buf = sch; vz_gen2_len = sl;
	return n;
}
