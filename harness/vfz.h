/*
 * vfz -- common case driver for all /verif targets.
 *
 * A case is a byte string ("choice sequence").  A target implements
 *     void target_run(void);
 * and draws all of its decisions lazily through ch_*().  When the string is
 * exhausted every draw returns 0 (= the simplest alternative).
 *
 * Verdicts are reported with vz_fail(); classification with vz_label();
 * a readable trace with vz_log().  The result record goes to the result fd
 * (env VFZ_RESFD, default stdout) as one text line, see vz_finish().
 */
#ifndef VFZ_H
#define VFZ_H
#include <stdint.h>
#include <stddef.h>
#include <stdarg.h>

/* ---- choice stream ---- */
void     ch_init(const uint8_t *b, size_t n);
unsigned ch_byte(void);                  /* next byte, 0 when exhausted */
unsigned ch_n(unsigned k);               /* uniform-ish in [0,k), 0 when exhausted; k>=1 */
unsigned ch_range(unsigned lo, unsigned hi); /* inclusive */
int      ch_exhausted(void);
int      ch_pct(unsigned pct);           /* true with ~pct% (false when exhausted) */
size_t   ch_used(void);

/* ---- secondary stream (schedules) ---- */
void     ch2_init(const uint8_t *b, size_t n);
unsigned ch2_n(unsigned k);

/* ---- reporting ---- */
extern const char *vz_prop;              /* property being decided ("C04") */
int  vz_enabled(const char *prop);       /* is this property's oracle set enabled? */
void vz_fail(const char *prop, const char *tag, const char *fmt, ...)
	__attribute__((format(printf, 3, 4)));   /* no return if prop enabled; else no-op */
void vz_label(unsigned bit);             /* 0..63 */
int  vz_has_label(unsigned bit);
void vz_count(unsigned idx, long delta); /* 16 free counters reported as c0..c15 */
void vz_log(const char *fmt, ...) __attribute__((format(printf, 1, 2)));
void vz_hash(const void *p, size_t n);   /* mix into the canonical program hash */
void vz_hash_u(uint64_t v);
void vz_nontrivial(void);                /* mark case non-trivial for the running property */
void vz_inconclusive(const char *why) __attribute__((noreturn));
void vz_finish(void) __attribute__((noreturn));  /* write OK record and _exit(0) */
const char *vz_scratch_dir(void);        /* per-case scratch directory (created on first use, removed at the end) */
void vz_scratch_cleanup(void);
extern int vz_res_fd;                    /* descriptor the result record is written to */
extern int vz_verbose;                   /* dump log into the record */

/* parameters given on the command line / replay header: key=value */
const char *vz_param(const char *key, const char *dflt);
long        vz_param_l(const char *key, long dflt);

/* implemented by the target */
extern const char *target_name;
void target_run(void);
/* generator: fill buf with a random case for (seed,index); returns length */
size_t target_gen(uint64_t seed, uint64_t index, uint8_t *buf, size_t cap);

/* PRNG for generators only (never used while running a case) */
struct vz_rng { uint64_t s; };
void     rng_seed(struct vz_rng *r, uint64_t seed, uint64_t idx);
uint64_t rng_next(struct vz_rng *r);
unsigned rng_n(struct vz_rng *r, unsigned k);
size_t   vz_gen_default(struct vz_rng *r, uint8_t *buf, size_t cap, unsigned minlen, unsigned maxlen);

#endif
