/*
 * t_sig -- C10: iv_signal fan-out under engine B (baton scheduler + virtual kernel).
 * 1-2 owner loops with interests (shared / exclusive / this-thread), an optional plain raiser
 * thread, deliveries raised by whichever thread holds the baton (so the receiving thread is a
 * generated choice), also from inside handlers and from inside iv_signal_register/unregister
 * (while the library has signals blocked), fork of a child that raises the signals itself.
 * Oracle: obligation model written as a validity predicate (DESIGN.md, C10).
 */
#ifndef _GNU_SOURCE
#define _GNU_SOURCE
#endif
#include "vfz.h"
#include "vk.h"
#include "vsched.h"
#include <errno.h>
#include <fcntl.h>
#include <pthread.h>
#include <signal.h>
#include <stdio.h>
#include <stdlib.h>
#include <string.h>
#include <unistd.h>
#include <sys/wait.h>
#include <iv.h>
#include <iv_signal.h>

const char *target_name = "sig";

enum { L_MIXED_FLAGS, L_DELIVERY_IN_HANDLER, L_EXCL_UNREG_OPEN, L_THIS_THREAD, L_TWO_THREADS, L_RAISE_IN_LIBCALL, L_FORK_CHILD, L_PLAIN_RECEIVER,
       L_HANDOFF_TO_FALLBACK, L_COALESCED, L_LAST_UNREG_RESTORES_DFL, L_M0, L_M1, L_M2, L_M3, L_EXCLUSIVE, L_THIS_SHADOWS_PROCESS, L_OTHER_THREAD_NOT_WOKEN, L_PIPE, L_BAD_SIGNUM, L_CHILD_REGISTERS, L_FORK_CHILD_REGISTERS };

#define FAILC(tag, ...) vz_fail("C10", tag, __VA_ARGS__)
static void fail_any(const char *tag, const char *fmt, ...)
{
	char msg[700]; va_list ap; va_start(ap, fmt); vsnprintf(msg, sizeof msg, fmt, ap); va_end(ap);
	char p[8]; strncpy(p, vz_prop, 3); p[3] = 0;
	vz_fail(p, tag, "%s", msg);
}
static void fatal_handler(const char *msg) { fail_any("fatal", "iv_fatal: %s", msg); _exit(3); }

#define NSIGS 3
static int signums[NSIGS];
#define MAXOWN 2
#define MAXI 5
#define MAXG 256
static unsigned long lclock;

struct msig {
	struct iv_signal *iv; int owner, idx, sig, flags, registered, registering;
	unsigned long need_after, last_handler, prev_handler, reg_time; long nhandled, may;
};
struct owner {
	int slot, in_main, shutdown_done; long budget;
	struct msig is[MAXI];
	struct iv_timer shutdown_timer, act_timer; int act_armed, act_rounds;
};
static struct owner own[MAXOWN]; static int nown;
static int count_sig[NSIGS];       /* harness' count of registered interests per signal (what the library must agree with) */
struct group { unsigned long t; int sig; int nm, nf, nmaybe; struct msig *m[MAXOWN * MAXI], *f[MAXOWN * MAXI], *mb[MAXOWN * MAXI]; int discharged; };
static struct group groups[MAXG]; static int ngroups;
static int raiser_done, have_raiser;
static __thread int raise_armed = -1;        /* signal index to raise from inside the next library call of this thread */
static __thread int raise_armed_slot = -1;
static __thread int in_libcall;
static int handler_depth[SCHED_MAXT];
static int handoff_inflight[NSIGS];     /* unregister calls of exclusive interests under way per signal: each may hand a noted delivery to whatever is in the tree at that moment */
static int libcalls_inflight[NSIGS];   /* register/unregister calls under way per signal (the harness count runs ahead of the library meanwhile) */
static __thread int raise_before_unlock;
static __thread struct msig *reg_in_progress; static __thread int raise_pending_unmask, pend_si; static __thread unsigned long pend_t;
#define MAXINF 8
static unsigned long inflight_t[NSIGS][MAXINF]; static int ninflight[NSIGS];   /* deliveries whose processing by the library may still be under way */
static int raises_inflight;        /* raise() calls that have not returned yet (their wake-ups may still be on the way) */

static int sigidx(int sig) { for (int i = 0; i < NSIGS; i++) if (signums[i] == sig) return i; return -1; }
static struct owner *owner_of_slot(int s) { for (int i = 0; i < nown; i++) if (own[i].slot == s) return &own[i]; return NULL; }

/* ------------------------------------------------------------------ deliveries */
static void record_delivery(int si, int recv_slot, unsigned long t)
{
	struct msig *cand[MAXOWN * MAXI]; int nc = 0;
	struct owner *ro = owner_of_slot(recv_slot);
	int any_process = 0;
	if (ro) for (int i = 0; i < MAXI; i++) { struct msig *s = &ro->is[i]; if (s->registered && s->sig == si && (s->flags & IV_SIGNAL_FLAG_THIS_THREAD)) cand[nc++] = s; }
	for (int o = 0; o < nown; o++) for (int i = 0; i < MAXI; i++) { struct msig *s = &own[o].is[i]; if (s->registered && s->sig == si && !(s->flags & IV_SIGNAL_FLAG_THIS_THREAD)) any_process = 1; }
	if (nc) { vz_label(L_THIS_THREAD); if (any_process) vz_label(L_THIS_SHADOWS_PROCESS); }
	else for (int o = 0; o < nown; o++) for (int i = 0; i < MAXI; i++) { struct msig *s = &own[o].is[i]; if (s->registered && s->sig == si && !(s->flags & IV_SIGNAL_FLAG_THIS_THREAD)) cand[nc++] = s; }
	for (int o = 0; o < nown; o++) if (&own[o] != ro) for (int i = 0; i < MAXI; i++) { struct msig *s = &own[o].is[i]; if (s->registered && s->sig == si && (s->flags & IV_SIGNAL_FLAG_THIS_THREAD)) vz_label(L_OTHER_THREAD_NOT_WOKEN); }
	if (!ro) vz_label(L_PLAIN_RECEIVER);
	/* interests whose registration call is under way in another thread may or may not be in the library's tree yet:
	 * they may legitimately be woken (upper bound), and an exclusive one may take the delivery, but nothing is owed to them */
	struct msig *maybe[MAXOWN * MAXI]; int nmaybe = 0;
	for (int o = 0; o < nown; o++) for (int i = 0; i < MAXI; i++) { struct msig *s = &own[o].is[i]; if (s->registering && s->sig == si) { s->may++; maybe[nmaybe++] = s; } }
	int nex = 0, flagsum = 0;
	for (int k = 0; k < nc; k++) { if (cand[k]->flags & IV_SIGNAL_FLAG_EXCLUSIVE) nex++; flagsum |= 1 << (cand[k]->flags & 3); cand[k]->may++; }
	if (nc >= 2 && (flagsum & (flagsum - 1))) vz_label(L_MIXED_FLAGS);
	vz_log("[T%d] delivery of signal#%d (t=%lu): %d candidate interest(s), %d exclusive", recv_slot, si, t, nc, nex);
	int maybe_ex = 0; for (int k = 0; k < nmaybe; k++) if (maybe[k]->flags & IV_SIGNAL_FLAG_EXCLUSIVE) maybe_ex = 1;
	if (!nex && !maybe_ex) { for (int k = 0; k < nc; k++) { if (cand[k]->need_after > cand[k]->last_handler) vz_label(L_COALESCED); if (t > cand[k]->need_after) cand[k]->need_after = t; } return; }
	if (!nex) return;      /* only an interest whose registration is under way might take it exclusively: nothing can be demanded */
	vz_label(L_EXCLUSIVE);
	if (ngroups >= MAXG) vz_inconclusive("too many deliveries");
	struct group *g = &groups[ngroups++];
	memset(g, 0, sizeof *g); g->t = t; g->sig = si;
	for (int k = 0; k < nc; k++) if (cand[k]->flags & IV_SIGNAL_FLAG_EXCLUSIVE) g->m[g->nm++] = cand[k]; else g->f[g->nf++] = cand[k];
	/* an exclusive interest whose registration is under way may take the delivery (discharging it) but nothing is owed to it */
	for (int k = 0; k < nmaybe; k++) if (maybe[k]->flags & IV_SIGNAL_FLAG_EXCLUSIVE) g->mb[g->nmaybe++] = maybe[k];
}
static void do_raise(int si)
{
	int me = sched_self();
	if (count_sig[si] < 1) return;     /* with no interest the default disposition would kill the process */
	/* a delivery racing with another thread's register/unregister of the same signal has no defined candidate set (and the
	 * default disposition may be restored under it): the generator keeps the two apart, see DESIGN.md section 9 */
	if (libcalls_inflight[si] > 0) return;
	unsigned long t = ++lclock;
	if (handler_depth[me] > 0) vz_label(L_DELIVERY_IN_HANDLER);
	vz_hash_u(0x100 + si * 8 + (me & 7));
	record_delivery(si, me, t);
	raises_inflight++;
	int slot = -1;
	if (ninflight[si] < MAXINF) { slot = ninflight[si]++; inflight_t[si][slot] = t; }
	raise(signums[si]);
	if (slot >= 0) { for (int k = 0; k < ninflight[si]; k++) if (inflight_t[si][k] == t) { inflight_t[si][k] = inflight_t[si][--ninflight[si]]; break; } }
	raises_inflight--;
}

/* ------------------------------------------------------------------ obligations */
static void discharge_on_handler(struct msig *s, unsigned long h)
{
	for (int g = 0; g < ngroups; g++) {
		struct group *G = &groups[g];
		if (G->discharged || G->t >= h) continue;
		for (int k = 0; k < G->nm; k++) if (G->m[k] == s) { G->discharged = 1; break; }
		for (int k = 0; k < G->nmaybe; k++) if (G->mb[k] == s) { G->discharged = 1; break; }
	}
}
static int same_tree(struct msig *a, struct msig *b)
{
	if ((a->flags ^ b->flags) & IV_SIGNAL_FLAG_THIS_THREAD) return 0;
	return !(a->flags & IV_SIGNAL_FLAG_THIS_THREAD) || a->owner == b->owner;
}
static void drop_from_groups(struct msig *s)
{
	/* The library clears an interest's "delivery noted" mark just before it calls the handler.  A delivery that the harness saw
	 * between the previous handler entry of s and its latest one may therefore have arrived after that moment and still be noted
	 * although a handler entry followed it: if s is exclusive, unregistering it now hands that delivery to what is in its tree -
	 * those interests may be woken once more (nothing is demanded of them). */
	if (s->flags & IV_SIGNAL_FLAG_EXCLUSIVE) {
		int ambiguous = 0;
		for (int g = 0; g < ngroups; g++) {
			struct group *G = &groups[g];
			if (G->t <= s->prev_handler || G->t >= s->last_handler) continue;
			for (int k = 0; k < G->nm; k++) if (G->m[k] == s) ambiguous = 1;
			for (int k = 0; k < G->nmaybe; k++) if (G->mb[k] == s) ambiguous = 1;
		}
		if (ambiguous)
			for (int o = 0; o < nown; o++) for (int i = 0; i < MAXI; i++) {
				struct msig *q = &own[o].is[i];
				if (q != s && q->registered && q->sig == s->sig && same_tree(q, s)) q->may++;
			}
	}
	for (int g = 0; g < ngroups; g++) {
		struct group *G = &groups[g];
		if (G->discharged) continue;
		int was_member = 0;
		for (int k = 0; k < G->nm; k++) if (G->m[k] == s) { G->m[k] = G->m[--G->nm]; vz_label(L_EXCL_UNREG_OPEN); was_member = 1; break; }
		for (int k = 0; k < G->nf; k++) if (G->f[k] == s) { G->f[k] = G->f[--G->nf]; break; }
		if (was_member) {
			/* if s was the one that had taken the delivery, the library hands it to what is in the same tree NOW -- which may
			 * include interests registered after the delivery: they become possible takers (exclusive) or the fallback */
			for (int o = 0; o < nown; o++) for (int i = 0; i < MAXI; i++) {
				struct msig *q = &own[o].is[i];
				if (q == s || !q->registered || q->sig != s->sig || !same_tree(q, s)) continue;
				int known = 0;
				for (int k = 0; k < G->nm; k++) if (G->m[k] == q) known = 1;
				for (int k = 0; k < G->nf; k++) if (G->f[k] == q) known = 1;
				if (known) continue;
				q->may++;
				if (q->flags & IV_SIGNAL_FLAG_EXCLUSIVE) G->m[G->nm++] = q; else G->f[G->nf++] = q;
			}
			/* an exclusive interest whose registration is under way in another thread may be in the tree by the time the library looks */
			for (int o = 0; o < nown; o++) for (int i = 0; i < MAXI; i++) {
				struct msig *q = &own[o].is[i];
				if (q != s && q->registering && q->sig == s->sig && (q->flags & IV_SIGNAL_FLAG_EXCLUSIVE) && G->nmaybe < (int)(sizeof G->mb / sizeof G->mb[0])) G->mb[G->nmaybe++] = q;
			}
		}
		if (G->nm == 0) {
			/* every exclusive interest that could have taken the delivery is gone: it is handed to the remaining ones */
			G->discharged = 1;
			if (G->nmaybe) continue;      /* a newcomer may have been handed the delivery instead */
			if (G->nf) vz_label(L_HANDOFF_TO_FALLBACK);
			for (int k = 0; k < G->nf; k++) { if (G->t > G->f[k]->need_after) G->f[k]->need_after = G->t; G->f[k]->may++; }
		}
	}
}
static void check_obligations(const char *where, struct owner *only)
{
	if (raises_inflight > 0) return;    /* a delivery is still being processed by its receiver (preempted inside the library's signal handler) */
	for (int o = 0; o < nown; o++) for (int i = 0; i < MAXI; i++) {
		struct msig *s = &own[o].is[i];
		if (only && &own[o] != only) continue;
		if (libcalls_inflight[s->sig] > 0) continue;    /* a register/unregister of this signal is under way: a hand-off may still come */
		if (s->registered && s->need_after > s->last_handler)
			FAILC("delivery-lost", "%s: interest %d.%d (signal#%d flags=%d) was owed a handler run after delivery t=%lu, last run t=%lu", where, o, i, s->sig, s->flags, s->need_after, s->last_handler);
	}
	for (int g = 0; g < ngroups; g++) {
		struct group *G = &groups[g];
		if (G->discharged || libcalls_inflight[G->sig] > 0) continue;
		if (only) { int all = 1; for (int k = 0; k < G->nm; k++) if (&own[G->m[k]->owner] != only) all = 0; if (!all) continue; }
		FAILC("exclusive-delivery-lost", "%s: delivery t=%lu of signal#%d had %d exclusive candidate(s) and none of them ran a handler since", where, G->t, G->sig, G->nm);
	}
}

/* ------------------------------------------------------------------ interests */
static void check_disposition(int si, const char *when)
{
	if (libcalls_inflight[si] > 0) return;
	struct sigaction cur;
	sigaction(signums[si], NULL, &cur);
	int dfl = cur.sa_handler == SIG_DFL;
	if (dfl != (count_sig[si] == 0))
		FAILC("disposition", "%s: %d interest(s) registered for signal#%d but the disposition is %s", when, count_sig[si], si, dfl ? "SIG_DFL" : "a handler");
	if (dfl) vz_label(L_LAST_UNREG_RESTORES_DFL);
}
static void sig_handler(void *cookie)
{
	struct msig *s = cookie;
	int me = sched_self();
	unsigned long h = ++lclock;
	handler_depth[me]++;
	vz_log("[T%d] handler interest %d.%d signal#%d flags=%d (t=%lu)", me, s->owner, s->idx, s->sig, s->flags, h);
	if (!s->registered) { vz_fail("C01", "callback-after-unregister", "signal interest handler ran after iv_signal_unregister returned"); FAILC("callback-after-unregister", "handler of unregistered interest ran"); }
	if (me != own[s->owner].slot) FAILC("wrong-thread", "interest %d.%d handler ran in T%d, registered in T%d", s->owner, s->idx, me, own[s->owner].slot);
	s->nhandled++;
	if (s->nhandled > s->may) FAILC("spurious-wakeup", "interest %d.%d (signal#%d flags=%d) ran %ld handlers but was a candidate for only %ld deliveries", s->owner, s->idx, s->sig, s->flags, s->nhandled, s->may);
	s->prev_handler = s->last_handler ? s->last_handler : s->reg_time; s->last_handler = h;
	discharge_on_handler(s, h);
	extern void owner_actions(struct owner *o, int nmax);
	owner_actions(&own[s->owner], 2);
	handler_depth[me]--;
}
static void sig_register(struct owner *o, int i, int arm_raise)
{
	struct msig *s = &o->is[i];
	int want_sig = ch_n(NSIGS), want_flags = ch_n(4);
	if (ninflight[want_sig] > 0) return;       /* not while a delivery of that signal is being processed in another thread */
	if (s->iv) vz_log("[T%d] (interest %d.%d: same struct as before, not initialised again)", sched_self(), (int)(o - own), i);   /* kept by sig_unregister */
	else { s->iv = malloc(sizeof *s->iv); memset(s->iv, 0xA5, sizeof *s->iv); IV_SIGNAL_INIT(s->iv); }
	s->sig = want_sig; s->flags = want_flags; s->owner = (int)(o - own); s->idx = i;
	s->iv->signum = signums[s->sig]; s->iv->flags = s->flags; s->iv->cookie = s; s->iv->handler = sig_handler;
	s->need_after = s->last_handler = 0; s->nhandled = s->may = 0; s->prev_handler = s->reg_time = lclock;
	vz_log("[T%d] register interest %d.%d signal#%d flags=%d", sched_self(), s->owner, i, s->sig, s->flags);
	vz_hash_u(0x200 + s->sig * 4 + s->flags);
	int raise_si = -1; unsigned long t = 0;
	if (arm_raise && count_sig[s->sig] >= 1) { raise_si = s->sig; raise_armed = raise_si; raise_armed_slot = sched_self(); vz_label(L_RAISE_IN_LIBCALL); }
	/* deliveries of this signal that another thread is still processing may find the new interest in the tree */
	for (int k = 0; k < ninflight[s->sig]; k++) {
		unsigned long ti = inflight_t[s->sig][k];
		s->may++;
		if (s->flags & IV_SIGNAL_FLAG_EXCLUSIVE) {
			/* ... and an exclusive newcomer may take such a delivery away from everybody else: nothing can be demanded for it any more */
			for (int g = 0; g < ngroups; g++) if (groups[g].t == ti && !groups[g].discharged) groups[g].discharged = 1;
			for (int o = 0; o < nown; o++) for (int i = 0; i < MAXI; i++) { struct msig *q = &own[o].is[i]; if (q->sig == s->sig && q->need_after >= ti) q->need_after = q->last_handler; }
		}
	}
	/* an exclusive interest of this signal that another thread is unregistering right now may hand its noted delivery to the newcomer too */
	s->may += handoff_inflight[s->sig];
	if (handoff_inflight[s->sig] && (s->flags & IV_SIGNAL_FLAG_EXCLUSIVE)) {
		/* ... and an exclusive newcomer may take it away from everybody else: nothing can be demanded for open deliveries of this signal */
		for (int g = 0; g < ngroups; g++) if (groups[g].sig == s->sig && !groups[g].discharged) groups[g].discharged = 1;
		for (int o2 = 0; o2 < nown; o2++) for (int i2 = 0; i2 < MAXI; i2++) { struct msig *q = &own[o2].is[i2]; if (q->sig == s->sig && q->need_after > q->last_handler) q->need_after = q->last_handler; }
	}
	reg_in_progress = s; raise_before_unlock = ch_n(2);
	in_libcall = 1; s->registering = 1; libcalls_inflight[s->sig]++;
	int r = iv_signal_register(s->iv);
	in_libcall = 0; s->registering = 0; libcalls_inflight[s->sig]--;
	if (r) fail_any("signal-register-failed", "iv_signal_register returned %d", r);
	reg_in_progress = NULL;
	s->registered = 1; count_sig[s->sig]++;
	if (raise_pending_unmask) { raise_pending_unmask = 0; raises_inflight--; for (int k = 0; k < ninflight[pend_si]; k++) if (inflight_t[pend_si][k] == pend_t) { inflight_t[pend_si][k] = inflight_t[pend_si][--ninflight[pend_si]]; break; } }
	raise_armed = -1; (void)raise_si; (void)t;
	check_disposition(s->sig, "after iv_signal_register");
}
static void sig_unregister(struct owner *o, int i, int arm_raise)
{
	struct msig *s = &o->is[i];
	if (ninflight[s->sig] > 0) { if (!o->shutdown_done) return; while (ninflight[s->sig] > 0) sched_yield_to_others("wait-delivery"); }
	vz_log("[T%d] unregister interest %d.%d signal#%d flags=%d%s", sched_self(), s->owner, i, s->sig, s->flags, s->need_after > s->last_handler ? " (delivery pending)" : "");
	vz_hash_u(0x300 + s->sig * 4 + s->flags);
	int raise_si = -1; unsigned long t = 0;
	s->registered = 0; count_sig[s->sig]--;
	if (arm_raise && count_sig[s->sig] >= 1 && libcalls_inflight[s->sig] == 0) { raise_si = s->sig; raise_armed = raise_si; raise_armed_slot = sched_self(); vz_label(L_RAISE_IN_LIBCALL); }
	drop_from_groups(s); raise_before_unlock = ch_n(2);
	if (s->flags & IV_SIGNAL_FLAG_EXCLUSIVE) {
		handoff_inflight[s->sig]++;
		/* ... and interests whose registration is under way in another thread may already be in the tree when the hand-off looks */
		for (int oo = 0; oo < nown; oo++) for (int ii = 0; ii < MAXI; ii++) { struct msig *q = &own[oo].is[ii]; if (q != s && q->registering && q->sig == s->sig) q->may++; }
	}
	in_libcall = 1; libcalls_inflight[s->sig]++;
	iv_signal_unregister(s->iv);
	in_libcall = 0; libcalls_inflight[s->sig]--;
	if (s->flags & IV_SIGNAL_FLAG_EXCLUSIVE) handoff_inflight[s->sig]--;
	if (raise_pending_unmask) { raise_pending_unmask = 0; raises_inflight--; for (int k = 0; k < ninflight[pend_si]; k++) if (inflight_t[pend_si][k] == pend_t) { inflight_t[pend_si][k] = inflight_t[pend_si][--ninflight[pend_si]]; break; } }
	raise_armed = -1; (void)raise_si; (void)t;
	/* "initialised by IV_SIGNAL_INIT" once: the caller may keep the struct and register it again as it is */
	if (o->shutdown_done || ch_n(3)) { memset(s->iv, 0x5A, sizeof *s->iv); free(s->iv); s->iv = NULL; }
	check_disposition(s->sig, "after iv_signal_unregister");
}

/* a signal number outside the supported range is refused, and the refusal leaves nothing behind (no lock held, no signal blocked) */
static void register_bad_signum(void)
{
	struct iv_signal *bad = malloc(sizeof *bad); memset(bad, 0xA5, sizeof *bad);
	IV_SIGNAL_INIT(bad);
	bad->signum = (int[]){ -1, _NSIG, _NSIG + 35, 1000, -2147483647 - 1 }[ch_n(5)]; bad->flags = ch_n(4); bad->cookie = NULL; bad->handler = NULL;
	vz_label(L_BAD_SIGNUM); vz_hash_u(0x700);
	sigset_t before, after; pthread_sigmask(SIG_SETMASK, NULL, &before);
	int r = iv_signal_register(bad);
	pthread_sigmask(SIG_SETMASK, NULL, &after);
	vz_log("[T%d] iv_signal_register with signum %d -> %d", sched_self(), bad->signum, r);
	if (r == 0) FAILC("bad-signum-accepted", "iv_signal_register accepted signal number %d", bad->signum);
	for (int k = 1; k < _NSIG; k++) if (sigismember(&before, k) != sigismember(&after, k)) { FAILC("sigmask-changed", "a refused iv_signal_register left signal %d %s", k, sigismember(&after, k) ? "blocked" : "unblocked"); break; }
	free(bad);
}

/* after the scenario: a child made by plain fork() (its parent has used iv_signal) starts its own loop, registers its first
 * interest and sends itself the signal: the delivery must reach the handler.  Runs on the virtual clock, so "never" is the
 * guard timer at +2 s being reached with nothing else to do. */
static int hook_sysfault(int sys, unsigned long k);
static int child_hits; static int cfg_method;
static struct iv_signal child_is; static struct iv_timer child_guard;
static void child_sig_handler(void *c) { (void)c; child_hits++; iv_signal_unregister(&child_is); iv_timer_unregister(&child_guard); }
static void child_guard_cb(void *c) { (void)c; _exit(7); }
static void fork_child_registers(void)
{
	int si = ch_n(NSIGS), fl = ch_n(4), twice = ch_n(2);
	vz_label(L_CHILD_REGISTERS); vz_hash_u(0x800 + si * 4 + fl);
	vz_log("epilogue: forked child registers its first interest (signal#%d flags=%d) and signals itself", si, fl);
	pid_t pid = fork();
	if (pid == 0) {
		vk_reset(); vk_hooks.sysfault = hook_sysfault; vk_active = 1;
		iv_init();
		IV_SIGNAL_INIT(&child_is); child_is.signum = signums[si]; child_is.flags = fl; child_is.cookie = NULL; child_is.handler = child_sig_handler;
		if (iv_signal_register(&child_is)) _exit(8);
		kill(getpid(), signums[si]); if (twice) raise(signums[si]);
		IV_TIMER_INIT(&child_guard); iv_validate_now(); child_guard.expires = iv_now; child_guard.expires.tv_sec += 2; child_guard.handler = child_guard_cb;
		iv_timer_register(&child_guard);
		iv_main();
		iv_deinit();
		_exit(child_hits == 1 ? 0 : 9);
	}
	if (pid > 0) {
		int st; while (waitpid(pid, &st, 0) < 0 && errno == EINTR) ;
		if (WIFEXITED(st) && WEXITSTATUS(st) == 7) FAILC("child-delivery-lost", "forked child: the delivery of signal#%d to its first interest (flags=%d) never reached the handler", si, fl);
		else if (WIFEXITED(st) && WEXITSTATUS(st) == 3) FAILC("child-fatal", "forked child: iv_fatal");
		else if (!WIFEXITED(st) || WEXITSTATUS(st)) fail_any("child-registers-failed", "forked child ended with status 0x%x", st);
	}
}

static void fork_child_raises(void)
{
	vz_label(L_FORK_CHILD);
	vz_log("[T%d] fork: the child raises every signal that has interests", sched_self());
	vz_hash_u(0x400);
	/* with the poll()/ppoll() methods the child shares no kernel object of the loop with its parent, so it may also register an
	 * interest of its own for a signal the parent has interests in, before raising: that must not reach the parent either */
	int child_registers = cfg_method >= 2 && ch_n(2);
	int creg_si = ch_n(NSIGS), creg_fl = ch_n(2) ? 0 : IV_SIGNAL_FLAG_EXCLUSIVE;
	if (child_registers) { vz_label(L_FORK_CHILD_REGISTERS); vz_log("[T%d]   (the child first registers its own interest for signal#%d flags=%d)", sched_self(), creg_si, creg_fl); }
	pid_t pid = fork();
	if (pid == 0) {
		sched_active = 0; vk_active = 0;
		if (child_registers) {
			static struct iv_signal cs;
			IV_SIGNAL_INIT(&cs); cs.signum = signums[creg_si]; cs.flags = creg_fl; cs.cookie = NULL; cs.handler = child_sig_handler;
			if (iv_signal_register(&cs)) _exit(8);
		}
		for (int k = 0; k < NSIGS; k++) {
			struct sigaction cur; sigaction(signums[k], NULL, &cur);     /* the disposition as inherited at the instant of the fork */
			if (cur.sa_handler != SIG_DFL) { raise(signums[k]); kill(getpid(), signums[k]); }
		}
		_exit(0);
	}
	if (pid > 0) { int st; while (waitpid(pid, &st, 0) < 0 && errno == EINTR) ; if (!WIFEXITED(st)) fail_any("fork-child-died", "forked child was killed by signal %d", WIFSIGNALED(st) ? WTERMSIG(st) : 0); }
}

/* ------------------------------------------------------------------ owner programs */
static void owner_shutdown(struct owner *o)
{
	if (o->shutdown_done) return;
	o->shutdown_done = 1;
	vz_log("[T%d] owner%d shuts down", sched_self(), (int)(o - own));
	for (int i = 0; i < MAXI; i++) if (o->is[i].registered) sig_unregister(o, i, 0);
	for (int i = 0; i < MAXI; i++) if (!o->is[i].registered && o->is[i].iv) { free(o->is[i].iv); o->is[i].iv = NULL; }
	if (o->act_armed) { iv_timer_unregister(&o->act_timer); o->act_armed = 0; }
	if (iv_timer_registered(&o->shutdown_timer)) iv_timer_unregister(&o->shutdown_timer);
}
static void shutdown_cb(void *c) { owner_shutdown(c); }
static void act_cb(void *c);
static void arm_act(struct owner *o)
{
	if (o->act_armed || o->shutdown_done || o->act_rounds <= 0) return;
	o->act_rounds--;
	IV_TIMER_INIT(&o->act_timer);
	iv_validate_now();
	o->act_timer.expires = vk_ns_ts(vk_ts_ns(&iv_now) + 1000000); o->act_timer.cookie = o; o->act_timer.handler = act_cb;
	iv_timer_register(&o->act_timer); o->act_armed = 1;
}
void owner_actions(struct owner *o, int nmax)
{
	if (o->shutdown_done || o->budget <= 0) return;
	int n = ch_n(nmax + 1);
	for (int k = 0; k < n && !o->shutdown_done; k++) {
		o->budget--;
		unsigned c = ch_n(12);
		int i = ch_n(MAXI);
		switch (c) {
		case 0: case 1: if (!o->is[i].registered) sig_register(o, i, ch_n(4) == 0); break;
		case 2: case 3: if (o->is[i].registered) sig_unregister(o, i, ch_n(3) == 0); break;
		case 4: case 5: case 6: case 7: do_raise(ch_n(NSIGS)); break;
		case 8: sched_point("action-yield"); break;
		case 9: if (ch_n(4) == 0) fork_child_raises(); break;
		case 10: if (ch_n(3) == 0) register_bad_signum(); break;
		default: break;
		}
	}
	arm_act(o);
}
static void act_cb(void *c) { struct owner *o = c; o->act_armed = 0; owner_actions(o, 3); }
static void owner_setup(struct owner *o)
{
	o->slot = sched_self(); o->budget = 15 + ch_n(50); o->act_rounds = 2 + ch_n(8);
	int n = 1 + ch_n(4);
	for (int k = 0; k < n; k++) { int i = ch_n(MAXI); if (!o->is[i].registered) sig_register(o, i, 0); }
	IV_TIMER_INIT(&o->shutdown_timer);
	iv_validate_now();
	o->shutdown_timer.expires = iv_now; o->shutdown_timer.expires.tv_sec += 60; o->shutdown_timer.cookie = o; o->shutdown_timer.handler = shutdown_cb;
	iv_timer_register(&o->shutdown_timer);
	arm_act(o);
}
static void *owner1_main(void *arg)
{
	struct owner *o = arg;
	iv_init();
	owner_setup(o);
	o->in_main = 1; iv_main(); o->in_main = 0;
	if (!o->shutdown_done) fail_any("early-return", "owner1 iv_main returned early");
	iv_deinit();
	return NULL;
}
struct rop { unsigned char op, a; };
static struct rop rops[24]; static int nrops;
static void *raiser_main(void *arg)
{
	(void)arg;
	for (int k = 0; k < nrops; k++) { if (rops[k].op) sched_point("raiser-yield"); else do_raise(rops[k].a % NSIGS); }
	raiser_done = 1;
	return NULL;
}

/* ------------------------------------------------------------------ hooks */
static int hook_wait_block(struct vk_wait *w)
{
	int s = sched_self();
	struct owner *o = owner_of_slot(s);
	if (o && o->in_main && sched_all_others_parked()) check_obligations("owner loop blocks with every other thread parked", NULL);
	else if (o && o->in_main) check_obligations("owner loop blocks", o);
	return sched_block_wait(w);
}
static void on_idle(void) { if (sched_all_others_parked()) check_obligations("every thread is parked", NULL); }
static void on_deadlock(const char *d) { check_obligations("deadlock", NULL); fail_any("deadlock", "all threads blocked for good: %s", d); _exit(3); }
/* deliveries inside iv_signal_register/unregister: at the lock operations, where the library has all signals blocked */
static void on_switch(const char *why, int from, int to) { (void)why; (void)from; (void)to; }
static int eventfd_mode;
static int hook_sysfault(int sys, unsigned long k)
{
	(void)k;
	if (sys == VKS_EVENTFD2 && eventfd_mode >= 1) return eventfd_mode == 1 ? EINVAL : ENOSYS;
	if (sys == VKS_EVENTFD && eventfd_mode >= 2) return ENOSYS;
	return 0;
}
static void hook_io_pre(int w, int fd, size_t n) { sched_io_pre(w, fd, n); }
int __real_pthread_spin_unlock(pthread_spinlock_t *);
/* called from our spin_unlock wrapper chain via vk? no: we piggy-back on epoll_ctl-free path: raise from the sigmask-protected section */
static void maybe_raise_in_libcall(void)
{
	if (raise_armed >= 0 && in_libcall && raise_armed_slot == sched_self()) {
		int si = raise_armed;
		raise_armed = -1;
		if (count_sig[si] < 1 || libcalls_inflight[si] > 1) return;
		vz_log("[T%d] (signal#%d raised while the library has signals blocked)", sched_self(), si);
		/* we are at the unlock that ends the library's critical section: its interest tree is in the post-call state,
		 * and the delivery happens when the signal mask is restored a few instructions later */
		if (reg_in_progress) { reg_in_progress->registered = 1; reg_in_progress->registering = 0; }
		unsigned long t = ++lclock;
		record_delivery(si, sched_self(), t);
		raises_inflight++; raise_pending_unmask = 1;
		pend_si = si; pend_t = t;
		if (ninflight[si] < MAXINF) inflight_t[si][ninflight[si]++] = t;
		raise(signums[si]);      /* stays pending until the library restores the signal mask */
	}
}
static void hook_epoll_ctl_pre(int epfd, int op, int fd) { (void)epfd; (void)op; (void)fd; sched_point("epoll_ctl"); }
/* the raise happens either just before the library releases its lock (signals are blocked there: it must stay pending) or just after */
static void on_point(const char *why) { if (raise_armed >= 0 && !strcmp(why, raise_before_unlock ? "spin_unlock-pre" : "spin_unlock")) maybe_raise_in_libcall(); }

static const char *excl[4] = { "", "epoll-timerfd", "epoll-timerfd epoll", "epoll-timerfd epoll ppoll" };

void target_run(void)
{
	signums[0] = SIGUSR1; signums[1] = SIGUSR2; signums[2] = SIGRTMIN + 1;
	int method = ch_n(4); cfg_method = method;
	eventfd_mode = (int[]){ 0, 0, 0, 2 }[ch_n(4)];
	nown = 1 + (ch_n(2));
	have_raiser = ch_n(2);
	setenv("IV_EXCLUDE_POLL_METHOD", excl[method], 1);
	vz_label(L_M0 + method); if (nown > 1) vz_label(L_TWO_THREADS); if (eventfd_mode) vz_label(L_PIPE);
	vz_hash_u(method * 8 + nown * 2 + have_raiser + eventfd_mode * 64);
	vz_log("config: method=%d owners=%d raiser=%d eventfd_mode=%d", method, nown, have_raiser, eventfd_mode);
	vk_reset();
	vk_hooks.wait_block = hook_wait_block; vk_hooks.epoll_ctl_pre = hook_epoll_ctl_pre; vk_hooks.sysfault = hook_sysfault;
	vk_hooks.io_pre = hook_io_pre; vk_hooks.io_post = sched_io_post;
	vk_active = 1;
	sched_on_deadlock = on_deadlock; sched_on_idle = on_idle; sched_on_switch = on_switch; sched_on_point = on_point;
	iv_set_fatal_msg_handler(fatal_handler);
	sched_init();
	iv_init();
	owner_setup(&own[0]);
	if (nown > 1) { sched_spawn(owner1_main, &own[1]); while (!own[1].slot) sched_yield_to_others("wait-owner1"); }
	if (have_raiser) {
		nrops = 1 + ch_n(20);
		for (int k = 0; k < nrops; k++) { rops[k].op = ch_n(3) == 0; rops[k].a = ch_n(NSIGS); vz_hash_u(0x500 + rops[k].op * 4 + rops[k].a); }
		sched_spawn(raiser_main, NULL);
	}
	owner_actions(&own[0], 3);
	own[0].in_main = 1; iv_main(); own[0].in_main = 0;
	if (!own[0].shutdown_done) fail_any("early-return", "owner0 iv_main returned early");
	iv_deinit();
	sched_finish();
	vk_active = 0;
	for (int k = 0; k < NSIGS; k++) check_disposition(k, "at the end");
	if (ch_n(3) == 0) fork_child_registers();
	vz_count(0, sched_step); vz_count(1, sched_switches); vz_count(2, lclock);
	if (vz_has_label(L_MIXED_FLAGS) || vz_has_label(L_DELIVERY_IN_HANDLER) || vz_has_label(L_EXCL_UNREG_OPEN)) vz_nontrivial();
}

extern uint8_t *vz_gen2_buf; extern size_t vz_gen2_len;
size_t target_gen(uint64_t seed, uint64_t index, uint8_t *buf, size_t cap)
{
	struct vz_rng r; rng_seed(&r, seed, index);
	size_t n = vz_gen_default(&r, buf, cap, 16, 300);
	static uint8_t sch[2048];
	size_t sl = 32 + rng_n(&r, sizeof sch - 32);
	unsigned density = (unsigned[]){ 0, 3, 10, 30 }[rng_n(&r, 4)];
	for (size_t i = 0; i < sl; i++) sch[i] = rng_n(&r, 100) < density ? 1 + rng_n(&r, 7) : 0;
	vz_gen2_buf = sch; vz_gen2_len = sl;
	return n;
}
