/*
 * t_popen -- C19: iv_popen.
 *  virtual mode: children are virtual (fork / wait4 / kill interposed), time is virtual, so the
 *    signalling sequence after iv_popen_request_close (TERM at once, then every 5 s, 5 x TERM then
 *    KILL, nothing once the child has been reaped) is checked exactly for every child behaviour
 *    and close timing;
 *  real mode: a real exec'ed helper reports the wiring of its standard streams and the signals it
 *    receives over a side pipe; data round-trip through the returned descriptor; real waits only
 *    to synchronise with the child.
 */
#ifndef _GNU_SOURCE
#define _GNU_SOURCE
#endif
#include "vfz.h"
#include "vk.h"
#include <errno.h>
#include <fcntl.h>
#include <signal.h>
#include <stdio.h>
#include <stdlib.h>
#include <string.h>
#include <unistd.h>
#include <sys/resource.h>
#include <sys/stat.h>
#include <sys/wait.h>
#include <iv.h>
#include <iv_popen.h>

const char *target_name = "popen";

enum { L_DIED_BETWEEN_SIGNALS, L_IGNORED_TERM_UNTIL_KILL, L_EXITED_BEFORE_CLOSE, L_CLOSE_BEFORE_EXIT, L_DIES_ON_FIRST_TERM, L_STOP_CONT, L_MULTI_REQUEST,
       L_REAL_CHILD, L_TYPE_R, L_TYPE_W, L_M0, L_M1, L_M2, L_M3, L_EXIT_AT_TIMER_INSTANT, L_NEVER_CLOSED_EXIT, L_KILL_TO_ZOMBIE, L_DIES_ON_NTH_TERM, L_FORK_FAILS, L_STRANGER_DIES_TOO };

#define FAILC(tag, ...) vz_fail("C19", tag, __VA_ARGS__)
static void fail_any(const char *tag, const char *fmt, ...)
{
	char msg[700]; va_list ap; va_start(ap, fmt); vsnprintf(msg, sizeof msg, fmt, ap); va_end(ap);
	char p[8]; strncpy(p, vz_prop, 3); p[3] = 0;
	vz_fail(p, tag, "%s", msg);
}
static void fatal_handler(const char *msg) { fail_any("fatal", "iv_fatal: %s", msg); _exit(3); }

/* ------------------------------------------------------------------ virtual children */
#define MAXR 3
enum { CS_NONE, CS_RUNNING, CS_STOPPED, CS_ZOMBIE, CS_REAPED };
struct vchild { int pid, state, q[8], nq; int term_needed; int terms_seen; int nkills; int64_t kill_time[16]; int kill_sig[16]; int64_t died_at; };
struct req {
	struct iv_popen_request *iv; int fd; struct vchild c; int submitted, closed; int64_t closed_at;
	struct iv_timer close_timer, exit_timer, stop_timer; int close_armed, exit_armed, stop_armed;
	char *argv[8]; int real; int side_r; pid_t real_pid; int type_r; int real_mode; int real_dead;
};
static struct req reqs[MAXR]; static int nreq;
static int virt_active, in_main, next_pid = 7000;
static struct req *forking;
static int fork_fail_once;            /* the next fork() of the library fails with EAGAIN */
/* children of the application that the library knows nothing about; they end at the same moments as popen children */
static int stranger_pid[16], stranger_st[16], nstrangers, strangers_alive;

pid_t __real_fork(void);
pid_t __real_wait4(pid_t, int *, int, struct rusage *);
int __real_kill(pid_t, int);

static struct req *req_by_pid(int pid) { for (int i = 0; i < nreq; i++) if (reqs[i].c.state != CS_NONE && reqs[i].c.pid == pid) return &reqs[i]; return NULL; }
static void child_dies(struct req *r, int st)
{
	struct vchild *c = &r->c;
	if (c->state != CS_RUNNING && c->state != CS_STOPPED) return;
	c->q[c->nq++] = st; c->state = CS_ZOMBIE; c->died_at = vk_now();
	vz_log("  child %d dies (status 0x%x) at +%lld ms", c->pid, st, (long long)((vk_now() - 1000 * VK_NS) / 1000000));
	if (nstrangers < 16 && ch_n(4) == 0) {
		stranger_pid[nstrangers] = next_pid++; stranger_st[nstrangers] = ch_n(2) ? 0 : SIGKILL; nstrangers++; strangers_alive++;
		vz_label(L_STRANGER_DIES_TOO); vz_log("  (an unrelated child %d of the application ends at the same moment)", stranger_pid[nstrangers - 1]);
	}
	if (r->closed && c->nkills > 0 && c->nkills < 16) vz_label(L_DIED_BETWEEN_SIGNALS);
	if (!r->closed) vz_label(L_EXITED_BEFORE_CLOSE);
	raise(SIGCHLD);
}
pid_t __wrap_fork(void)
{
	if (!virt_active || !forking || forking->real) return __real_fork();
	if (fork_fail_once) { fork_fail_once = 0; vz_log("  fork() -> EAGAIN"); errno = EAGAIN; return -1; }
	struct vchild *c = &forking->c;
	c->pid = next_pid++; c->state = CS_RUNNING;
	vz_log("  fork() -> virtual child %d", c->pid);
	return c->pid;
}
pid_t __wrap_wait4(pid_t pid, int *status, int options, struct rusage *ru)
{
	if (!virt_active) return __real_wait4(pid, status, options, ru);
	int any = 0;
	/* the unrelated children are reported first */
	if (strangers_alive) {
		int k = nstrangers - strangers_alive; strangers_alive--;
		if (status) *status = stranger_st[k];
		if (ru) memset(ru, 0, sizeof *ru);
		vz_log("  wait4 -> pid %d status 0x%x (unrelated child)", stranger_pid[k], stranger_st[k]);
		return stranger_pid[k];
	}
	for (int i = 0; i < nreq; i++) {
		struct vchild *c = &reqs[i].c;
		if (reqs[i].real) continue;
		if (c->state == CS_RUNNING || c->state == CS_STOPPED || c->state == CS_ZOMBIE) any = 1;
		if (c->nq) {
			int st = c->q[0]; memmove(c->q, c->q + 1, --c->nq * sizeof c->q[0]);
			if (status) *status = st;
			if (ru) memset(ru, 0, sizeof *ru);
			if (WIFEXITED(st) || (WIFSIGNALED(st) && !WIFCONTINUED(st))) c->state = CS_REAPED;
			vz_log("  wait4 -> pid %d status 0x%x", c->pid, st);
			return c->pid;
		}
	}
	/* real children (real mode) are collected with the real call */
	pid_t r = __real_wait4(pid, status, options, ru);
	if (r > 0) { for (int i = 0; i < nreq; i++) if (reqs[i].real && reqs[i].real_pid == r && (WIFEXITED(*status) || WIFSIGNALED(*status))) reqs[i].real_dead = 2; return r; }
	if (r < 0 && errno == ECHILD && any) return 0;
	return r;
}
static void real_kill_sync(struct req *r, int sig);
int __wrap_kill(pid_t pid, int sig)
{
	struct req *r;
	if (!virt_active) return __real_kill(pid, sig);
	for (int i = 0; i < nreq; i++) if (reqs[i].real && reqs[i].real_pid == pid) {
		r = &reqs[i];
		struct vchild *c = &r->c;
		if (r->real_dead == 2) FAILC("kill-after-reap", "signal %d sent to pid %d after its termination was reaped", sig, pid);
		if (c->nkills < 16) { c->kill_time[c->nkills] = vk_now(); c->kill_sig[c->nkills] = sig; } c->nkills++;
		if (sig != (c->nkills <= 5 ? SIGTERM : SIGKILL)) FAILC("wrong-signal", "signal #%d to real child %d is %d (5 x SIGTERM, then SIGKILL)", c->nkills, pid, sig);
		if (c->nkills >= 14) FAILC("kill-sequence-endless", "real child %d has been signalled %d times and is still there", pid, c->nkills);
		vz_log("  kill(real %d, %d) at +%lld ms", pid, sig, (long long)((vk_now() - 1000 * VK_NS) / 1000000));
		real_kill_sync(r, sig);
		return 0;
	}
	r = req_by_pid(pid);
	if (!r) return __real_kill(pid, sig);
	struct vchild *c = &r->c;
	vz_log("  kill(%d, %d) at +%lld ms%s", pid, sig, (long long)((vk_now() - 1000 * VK_NS) / 1000000), c->state == CS_ZOMBIE ? " (a zombie)" : "");
	if (c->state == CS_REAPED) {
		FAILC("kill-after-reap", "signal %d sent to pid %d after its termination was reaped (the pid may belong to somebody else by now)", sig, pid);
		errno = ESRCH; return -1;
	}
	if (!r->closed) FAILC("kill-before-close", "child %d was signalled although its request was not closed", pid);
	if (c->nkills < 16) { c->kill_time[c->nkills] = vk_now(); c->kill_sig[c->nkills] = sig; }
	int k = c->nkills++;
	if (k >= 14) FAILC("kill-sequence-endless", "child %d has been signalled %d times and is still there (a child that ignores SIGTERM must get SIGKILL after 5 attempts)", pid, k + 1);
	int want = k < 5 ? SIGTERM : SIGKILL;
	if (sig != want) FAILC("wrong-signal", "signal #%d to child %d is %d, expected %d (5 x SIGTERM, then SIGKILL)", k + 1, pid, sig, want);
	if (k == 0 && vk_now() > r->closed_at + 1000000)
		FAILC("first-signal-late", "first signal to child %d came %lld ns after the close", pid, (long long)(vk_now() - r->closed_at));
	if (k > 0 && k < 16) {
		int64_t dt = c->kill_time[k] - c->kill_time[k - 1];
		if (dt < 5 * VK_NS) FAILC("signal-interval-short", "signals #%d and #%d to child %d are only %lld ns apart (interval is 5 s)", k, k + 1, pid, (long long)dt);
		if (dt > 5 * VK_NS + 50000000) FAILC("signal-interval-long", "signals #%d and #%d to child %d are %lld ns apart (interval is 5 s)", k, k + 1, pid, (long long)dt);
	}
	if (c->state == CS_ZOMBIE) { vz_label(L_KILL_TO_ZOMBIE); return 0; }
	if (sig == SIGKILL) { if (c->terms_seen >= 5) vz_label(L_IGNORED_TERM_UNTIL_KILL); child_dies(r, SIGKILL); }
	else if (sig == SIGTERM) {
		c->terms_seen++;
		if (c->term_needed && c->terms_seen >= c->term_needed) { if (c->term_needed == 1) vz_label(L_DIES_ON_FIRST_TERM); else vz_label(L_DIES_ON_NTH_TERM); child_dies(r, SIGTERM); }
	}
	return 0;
}

/* ------------------------------------------------------------------ real helper */
static const char *helper_path;
static void real_kill_sync(struct req *r, int sig)
{
	__real_kill(r->real_pid, sig);
	/* wait (real time, bounded; synchronisation only) until the child has seen the signal or is gone */
	for (int i = 0; i < 2000; i++) {
		struct pollfd p = { r->side_r, POLLIN, 0 };
		if (__real_poll(&p, 1, 1) > 0) {
			char c; ssize_t n = read(r->side_r, &c, 1);
			if (n == 1 && c == 'S') { r->c.terms_seen++; return; }     /* caught and survived */
			if (n == 0) break;                                          /* side pipe closed: it is gone */
		}
		siginfo_t si; si.si_pid = 0;
		if (waitid(P_PID, r->real_pid, &si, WEXITED | WNOHANG | WNOWAIT) == 0 && si.si_pid) break;
	}
	/* give the SIGCHLD a chance to have been delivered */
	for (int i = 0; i < 1000; i++) { siginfo_t si; si.si_pid = 0; if (waitid(P_PID, r->real_pid, &si, WEXITED | WNOHANG | WNOWAIT) == 0 && si.si_pid) { r->real_dead = r->real_dead ? r->real_dead : 1; return; } usleep(1000); if (sig != SIGKILL && i > 20) return; }
}

/* ------------------------------------------------------------------ requests */
static void close_cb(void *c);
static void request_submit(int i)
{
	struct req *r = &reqs[i];
	memset(r, 0, sizeof *r);
	r->iv = malloc(sizeof *r->iv); memset(r->iv, 0xA5, sizeof *r->iv);
	IV_POPEN_REQUEST_INIT(r->iv);
	r->type_r = ch_n(2);
	r->real = r->real_mode = vz_param_l("real", 0) ? 1 : 0;
	vz_label(r->type_r ? L_TYPE_R : L_TYPE_W);
	int beh = ch_n(8);
	r->c.term_needed = beh <= 4 ? 1 + beh : 0;       /* dies on the n-th SIGTERM; 0 = ignores SIGTERM */
	static char sidebuf[16], behbuf[16];
	if (r->real) {
		int sp[2]; if (pipe(sp) < 0) vz_inconclusive("pipe");
		fcntl(sp[0], F_SETFD, FD_CLOEXEC);
		r->side_r = sp[0];
		snprintf(sidebuf, sizeof sidebuf, "%d", sp[1]); snprintf(behbuf, sizeof behbuf, "%d", r->c.term_needed > 1 ? 0 : r->c.term_needed);
		if (r->c.term_needed > 1) r->c.term_needed = 0;
		r->argv[0] = (char *)helper_path; r->argv[1] = r->type_r ? "r" : "w"; r->argv[2] = sidebuf; r->argv[3] = behbuf; r->argv[4] = NULL;
		r->iv->file = (char *)helper_path;
		vz_label(L_REAL_CHILD);
		forking = r;
		r->iv->argv = r->argv; r->iv->type = r->type_r ? "r" : "w";
		r->fd = iv_popen_request_submit(r->iv);
		forking = NULL;
		close(sp[1]);
		if (r->fd < 0) fail_any("submit-failed", "iv_popen_request_submit returned %d", r->fd);
		/* the helper first reports its pid and the wiring of its standard streams */
		char rep[64] = ""; size_t n = 0;
		while (n < sizeof rep - 1) { ssize_t k = read(r->side_r, rep + n, 1); if (k <= 0) break; if (rep[n] == '\n') break; n++; }
		rep[n] = 0;
		int pid = 0, n0 = 0, n1 = 0, n2 = 0;
		if (sscanf(rep, "P %d %d %d %d", &pid, &n0, &n1, &n2) != 4) fail_any("helper-report", "helper did not report (got '%s')", rep);
		r->real_pid = pid; r->c.pid = pid; r->c.state = CS_RUNNING;
		vz_log("  request %d: real child %d type %s: fd0 null=%d fd1 null=%d fd2 null=%d", i, pid, r->iv->type, n0, n1, n2);
		if (!n2) FAILC("wiring", "child's stderr is not the null device");
		if (r->type_r) { if (!n0) FAILC("wiring", "type r: child's stdin is not the null device"); if (n1) FAILC("wiring", "type r: child's stdout is the null device, not the pipe"); }
		else { if (!n1) FAILC("wiring", "type w: child's stdout is not the null device"); if (n0) FAILC("wiring", "type w: child's stdin is the null device, not the pipe"); }
		/* data round trip */
		if (r->type_r) {
			char buf[64] = ""; size_t m = 0; fcntl(r->fd, F_SETFL, fcntl(r->fd, F_GETFL) & ~O_NONBLOCK);
			while (m < 11) { ssize_t k = read(r->fd, buf + m, 11 - m); if (k <= 0) break; m += k; }
			if (m != 11 || memcmp(buf, "hello-popen", 11)) FAILC("data", "type r: read '%.*s' from the child instead of 'hello-popen'", (int)m, buf);
		} else {
			if (write(r->fd, "ping-popen\n", 11) != 11) FAILC("data", "type w: write to the child failed");
			char c2 = 0; if (read(r->side_r, &c2, 1) != 1 || c2 != 'D') FAILC("data", "type w: the child did not receive what was written to the descriptor");
		}
	} else {
		r->iv->file = "/nonexistent/virtual-child"; r->argv[0] = "virtual"; r->argv[1] = NULL; r->iv->argv = r->argv; r->iv->type = r->type_r ? "r" : "w";
		if (ch_n(6) == 0) {
			/* the system is out of processes for a moment: the submission fails, leaves nothing behind, and is simply made again */
			fork_fail_once = 1; forking = r;
			int fd = iv_popen_request_submit(r->iv);
			forking = NULL;
			vz_label(L_FORK_FAILS); vz_log("  request %d: submit with a failing fork() -> %d", i, fd);
			if (fork_fail_once) { fork_fail_once = 0; fail_any("no-fork", "iv_popen_request_submit did not call fork()"); }
			if (fd >= 0) fail_any("submit-ignored-fork-failure", "iv_popen_request_submit returned descriptor %d although fork() failed", fd);
			memset(r->iv, 0xA5, sizeof *r->iv); IV_POPEN_REQUEST_INIT(r->iv);
			r->iv->file = "/nonexistent/virtual-child"; r->iv->argv = r->argv; r->iv->type = r->type_r ? "r" : "w";
		}
		forking = r;
		r->fd = iv_popen_request_submit(r->iv);
		forking = NULL;
		if (r->fd < 0) fail_any("submit-failed", "iv_popen_request_submit returned %d", r->fd);
		vz_log("  request %d submitted: virtual child %d, %s", i, r->c.pid, r->c.term_needed ? "dies on a SIGTERM" : "ignores SIGTERM");
	}
	vz_hash_u(0x100 + r->type_r * 16 + beh + r->real * 64);
	r->submitted = 1;
}
static void request_close(struct req *r)
{
	if (!r->submitted || r->closed) return;
	r->closed = 1; r->closed_at = vk_now();
	if (r->c.state == CS_RUNNING || r->c.state == CS_STOPPED) vz_label(L_CLOSE_BEFORE_EXIT);
	vz_log("  request %d close at +%lld ms (child state %d)", (int)(r - reqs), (long long)((vk_now() - 1000 * VK_NS) / 1000000), r->c.state);
	vz_hash_u(0x200);
	iv_popen_request_close(r->iv);
	close(r->fd);
	memset(r->iv, 0x5A, sizeof *r->iv); free(r->iv); r->iv = NULL;   /* the request structure is the caller's again */
}
static void close_cb(void *c) { struct req *r = c; r->close_armed = 0; request_close(r); }
static void exit_cb(void *c)
{
	struct req *r = c; r->exit_armed = 0;
	if (r->real) return;
	if (r->closed && r->c.nkills > 0 && r->c.nkills < 16 && vk_now() == r->c.kill_time[r->c.nkills - 1] + 5 * VK_NS) vz_label(L_EXIT_AT_TIMER_INSTANT);
	child_dies(r, ch_n(2) ? 0 : SIGSEGV);
}
static void stop_cb(void *c)
{
	struct req *r = c; r->stop_armed = 0;
	if (r->real || (r->c.state != CS_RUNNING)) return;
	vz_label(L_STOP_CONT);
	vz_log("  child %d stops and continues", r->c.pid);
	r->c.q[r->c.nq++] = (SIGSTOP << 8) | 0x7f; raise(SIGCHLD);
	if (ch_n(2)) { r->c.q[r->c.nq++] = 0xffff; raise(SIGCHLD); }
	else r->c.state = CS_STOPPED;
}
static void arm(struct iv_timer *t, void (*cb)(void *), void *cookie, int64_t at)
{
	IV_TIMER_INIT(t); t->expires = vk_ns_ts(at); t->cookie = cookie; t->handler = cb; iv_timer_register(t);
}
static int64_t draw_time(void)
{
	static const int64_t ms[] = { 0, 1, 2500, 4999, 5000, 5001, 7500, 10000, 12500, 20000, 24999, 25000, 25001, 27000, 31000, 40000 };
	return vk_now() + ms[ch_n(16)] * 1000000;
}

/* ------------------------------------------------------------------ hooks */
static int hook_wait_block(struct vk_wait *w) { (void)w; return VK_SLEEP; }
static void hook_quiescent(struct vk_wait *w)
{
	(void)w;
	for (int i = 0; i < nreq; i++) {
		struct req *r = &reqs[i];
		if (r->submitted && r->closed && r->c.state != CS_REAPED && !r->real)
			FAILC("not-terminated", "loop blocks forever: request %d was closed but child %d (state %d, %d signals sent) was never brought down and reaped", i, r->c.pid, r->c.state, r->c.nkills);
	}
	/* requests never closed whose child lives on keep the loop alive legitimately */
	int open_alive = 0;
	for (int i = 0; i < nreq; i++) if (reqs[i].submitted && !reqs[i].closed && (reqs[i].c.state == CS_RUNNING || reqs[i].c.state == CS_STOPPED)) open_alive = 1;
	if (open_alive) { vz_log("case ends: an open request with a live child keeps the loop running"); vz_finish(); }
	FAILC("hang", "loop blocks forever although every child has been reaped");
	fail_any("hang", "loop blocks forever");
	_exit(3);
}
static int hook_poll_is_probe(void) { return !in_main; }
static const char *excl[4] = { "", "epoll-timerfd", "epoll-timerfd epoll", "epoll-timerfd epoll ppoll" };

void target_run(void)
{
	int method = ch_n(4);
	setenv("IV_EXCLUDE_POLL_METHOD", excl[method], 1);
	vz_label(L_M0 + method);
	helper_path = vz_param("helper", "/verif/build/popen_child");
	nreq = 1 + (ch_n(3) == 0) + (ch_n(6) == 0);
	if (vz_param_l("real", 0)) nreq = 1;
	if (nreq > 1) vz_label(L_MULTI_REQUEST);
	vz_hash_u(method * 4 + nreq);
	vz_log("config: method=%d requests=%d", method, nreq);
	vk_reset();
	vk_hooks.wait_block = hook_wait_block; vk_hooks.quiescent = hook_quiescent; vk_hooks.poll_is_probe = hook_poll_is_probe;
	vk_active = 1; { extern int vlock_active; vlock_active = 1; } virt_active = 1;
	iv_set_fatal_msg_handler(fatal_handler);
	signal(SIGPIPE, SIG_IGN);
	iv_init();
	for (int i = 0; i < nreq; i++) {
		struct req *r = &reqs[i];
		request_submit(i);
		/* when is it closed, when does the child end by itself, does it stop/continue */
		unsigned plan = ch_n(8);
		if (plan == 0) request_close(r);                                          /* closed right away */
		else if (plan <= 5) { arm(&r->close_timer, close_cb, r, draw_time()); r->close_armed = 1; }
		else vz_label(L_NEVER_CLOSED_EXIT);                                          /* never closed: the child has to end by itself */
		if (!r->real && (plan > 5 || ch_n(2))) { arm(&r->exit_timer, exit_cb, r, draw_time()); r->exit_armed = 1; }
		if (!r->real && ch_n(4) == 0) { arm(&r->stop_timer, stop_cb, r, draw_time()); r->stop_armed = 1; }
	}
	in_main = 1; iv_main(); in_main = 0;
	vz_log("iv_main returned at +%lld ms", (long long)((vk_now() - 1000 * VK_NS) / 1000000));
	for (int i = 0; i < nreq; i++) {
		struct req *r = &reqs[i];
		if (r->close_armed || r->exit_armed || r->stop_armed) fail_any("early-return", "iv_main returned with harness timers registered");
		if (!r->real) {
			if (r->c.state != CS_REAPED) FAILC("not-reaped", "iv_main returned but child %d of request %d was not reaped (state %d): %s", r->c.pid, i, r->c.state, r->c.state == CS_ZOMBIE ? "a zombie remains" : "it is still running");
			if (r->c.nq) FAILC("status-left", "child %d has unreaped state changes", r->c.pid);
		} else {
			int st; pid_t p = __real_wait4(r->real_pid, &st, WNOHANG, NULL);
			if (!(p < 0 && errno == ECHILD)) { __real_kill(r->real_pid, SIGKILL); FAILC("not-reaped", "iv_main returned but real child %d was not reaped (waitpid -> %d)", r->real_pid, (int)p); }
			if (r->c.term_needed == 0 && r->c.nkills < 6) FAILC("kill-sequence-short", "a child that ignores SIGTERM got only %d signals", r->c.nkills);
		}
		if (r->iv) { memset(r->iv, 0x5A, sizeof *r->iv); free(r->iv); }
	}
	iv_deinit();
	vk_active = 0; virt_active = 0;
	if (vz_has_label(L_DIED_BETWEEN_SIGNALS) || vz_has_label(L_IGNORED_TERM_UNTIL_KILL) || vz_has_label(L_REAL_CHILD)) vz_nontrivial();
}

size_t target_gen(uint64_t seed, uint64_t index, uint8_t *buf, size_t cap)
{
	struct vz_rng r; rng_seed(&r, seed, index);
	return vz_gen_default(&r, buf, cap, 24, 96);
}
