#ifndef _GNU_SOURCE
#define _GNU_SOURCE
#endif
#include "vfz.h"
#include <stdio.h>
#include <stdlib.h>
#include <string.h>
#include <unistd.h>
#include <fcntl.h>
#include <signal.h>
#include <errno.h>
#include <sys/wait.h>
#include <sys/prctl.h>
#include <sys/stat.h>
#include <sys/resource.h>
#include <sys/time.h>

/* ------------------------------------------------------------------ choice streams */
static const uint8_t *ch_b; static size_t ch_len, ch_pos;
static const uint8_t *ch2_b; static size_t ch2_len, ch2_pos;

void ch_init(const uint8_t *b, size_t n) { ch_b = b; ch_len = n; ch_pos = 0; }
unsigned ch_byte(void) { return ch_pos < ch_len ? ch_b[ch_pos++] : 0; }
int ch_exhausted(void) { return ch_pos >= ch_len; }
size_t ch_used(void) { return ch_pos; }
void ch_seek(size_t pos) { ch_pos = pos; }
unsigned ch_n(unsigned k)
{
	if (k <= 1) return 0;
	if (k <= 256) return ch_byte() % k;
	unsigned v = ch_byte(); v = (v << 8) | ch_byte();
	if (k > 65536) { v = (v << 8) | ch_byte(); }
	return v % k;
}
unsigned ch_range(unsigned lo, unsigned hi) { return lo + ch_n(hi - lo + 1); }
int ch_pct(unsigned pct) { if (ch_exhausted()) return 0; return (ch_byte() * 100u) / 256u < pct; }

void ch2_init(const uint8_t *b, size_t n) { ch2_b = b; ch2_len = n; ch2_pos = 0; }
unsigned ch2_n(unsigned k)
{
	if (k <= 1) return 0;
	unsigned v = ch2_pos < ch2_len ? ch2_b[ch2_pos++] : 0;
	return v % k;
}

/* ------------------------------------------------------------------ rng (generators) */
void rng_seed(struct vz_rng *r, uint64_t seed, uint64_t idx)
{
	r->s = seed * 0x9E3779B97F4A7C15ull ^ (idx + 1) * 0xD1B54A32D192ED03ull;
	rng_next(r); rng_next(r);
}
uint64_t rng_next(struct vz_rng *r)
{
	uint64_t z = (r->s += 0x9E3779B97F4A7C15ull);
	z = (z ^ (z >> 30)) * 0xBF58476D1CE4E5B9ull;
	z = (z ^ (z >> 27)) * 0x94D049BB133111EBull;
	return z ^ (z >> 31);
}
unsigned rng_n(struct vz_rng *r, unsigned k) { return k ? (unsigned)(rng_next(r) % k) : 0; }

/* default byte generator: length in [minlen,maxlen] (log-uniform), bytes a mix of uniform,
 * small values and repeated runs so that "% k" draws see both low and high alternatives */
size_t vz_gen_default(struct vz_rng *r, uint8_t *buf, size_t cap, unsigned minlen, unsigned maxlen)
{
	if (maxlen > cap) maxlen = cap;
	if (minlen > maxlen) minlen = maxlen;
	unsigned span = maxlen - minlen + 1;
	unsigned len = minlen;
	switch (rng_n(r, 3)) {
	case 0: len = minlen + rng_n(r, span); break;
	case 1: len = minlen + rng_n(r, span / 4 + 1); break;
	case 2: len = minlen + rng_n(r, span / 16 + 1); break;
	}
	unsigned mode = rng_n(r, 4);
	for (unsigned i = 0; i < len; i++) {
		unsigned m = mode == 3 ? rng_n(r, 3) : mode;
		switch (m) {
		case 0: buf[i] = (uint8_t)rng_next(r); break;
		case 1: buf[i] = (uint8_t)rng_n(r, 8); break;
		default: buf[i] = rng_n(r, 4) ? (uint8_t)rng_next(r) : (uint8_t)rng_n(r, 4); break;
		}
	}
	return len;
}

/* ------------------------------------------------------------------ params */
#define MAXPARAM 64
static char *pkeys[MAXPARAM], *pvals[MAXPARAM]; static int nparams;
static void param_set(const char *kv)
{
	const char *eq = strchr(kv, '=');
	if (!eq || nparams >= MAXPARAM) return;
	size_t kl = eq - kv;
	for (int i = 0; i < nparams; i++)
		if (strlen(pkeys[i]) == kl && !strncmp(pkeys[i], kv, kl)) { free(pvals[i]); pvals[i] = strdup(eq + 1); return; }
	pkeys[nparams] = strndup(kv, kl); pvals[nparams] = strdup(eq + 1); nparams++;
}
const char *vz_param(const char *key, const char *dflt)
{
	for (int i = 0; i < nparams; i++) if (!strcmp(pkeys[i], key)) return pvals[i];
	return dflt;
}
long vz_param_l(const char *key, long dflt)
{
	const char *v = vz_param(key, NULL);
	return v ? strtol(v, NULL, 0) : dflt;
}

/* ------------------------------------------------------------------ reporting */
const char *vz_prop = "";
int vz_verbose;
int vz_res_fd = 1;
#define res_fd vz_res_fd
static uint64_t labels, hashv = 0xcbf29ce484222325ull;
static long counters[16];
static int nontrivial;
#define LOGCAP (1 << 18)
static char *logbuf; static size_t loglen; static int log_trunc;

int vz_enabled(const char *prop)
{
	/* vz_prop may be a '+'-separated list ("C01+C03") */
	const char *p = vz_prop;
	size_t n = strlen(prop);
	while (*p) {
		if (!strncmp(p, prop, n) && (p[n] == 0 || p[n] == '+')) return 1;
		p = strchr(p, '+'); if (!p) break; p++;
	}
	return 0;
}
void vz_label(unsigned bit) { labels |= 1ull << (bit & 63); }
int vz_has_label(unsigned bit) { return !!(labels & (1ull << (bit & 63))); }
void vz_count(unsigned idx, long d) { counters[idx & 15] += d; }
void vz_nontrivial(void) { nontrivial = 1; }
void vz_hash(const void *p, size_t n)
{
	const uint8_t *b = p;
	for (size_t i = 0; i < n; i++) { hashv ^= b[i]; hashv *= 0x100000001b3ull; }
}
void vz_hash_u(uint64_t v) { vz_hash(&v, sizeof v); }

void vz_log(const char *fmt, ...)
{
	if (!logbuf) logbuf = malloc(LOGCAP);
	if (loglen + 512 >= LOGCAP) { log_trunc = 1; return; }
	va_list ap; va_start(ap, fmt);
	int n = vsnprintf(logbuf + loglen, 500, fmt, ap);
	va_end(ap);
	if (n > 499) n = 499;
	loglen += n;
	logbuf[loglen++] = '\n';
}

static void wr(int fd, const char *s, size_t n)
{
	while (n) { ssize_t r = write(fd, s, n); if (r <= 0) { if (errno == EINTR) continue; return; } s += r; n -= r; }
}

static void emit(const char *v, const char *prop, const char *tag, const char *msg)
{
	char line[2048];
	if (vz_verbose && logbuf) {
		/* log lines are prefixed so the parent can separate them */
		char *p = logbuf, *e = logbuf + loglen;
		while (p < e) {
			char *nl = memchr(p, '\n', e - p); if (!nl) nl = e;
			wr(res_fd, "LOG ", 4); wr(res_fd, p, nl - p); wr(res_fd, "\n", 1);
			p = nl + 1;
		}
		if (log_trunc) wr(res_fd, "LOG ...(truncated)\n", 19);
	}
	int n = snprintf(line, sizeof line, "RES v=%s prop=%s tag=%s labels=%llx hash=%llx nt=%d c=", v, prop, tag,
			 (unsigned long long)labels, (unsigned long long)hashv, nontrivial);
	for (int i = 0; i < 16; i++) n += snprintf(line + n, sizeof line - n, "%ld%s", counters[i], i < 15 ? "," : "");
	n += snprintf(line + n, sizeof line - n, " used=%zu msg=", ch_used());
	for (const char *p = msg; *p && n < (int)sizeof line - 2; p++) line[n++] = (*p == '\n') ? ' ' : *p;
	line[n++] = '\n';
	wr(res_fd, line, n);
}

void vz_fail(const char *prop, const char *tag, const char *fmt, ...)
{
	if (!vz_enabled(prop)) return;
	char msg[1024];
	va_list ap; va_start(ap, fmt); vsnprintf(msg, sizeof msg, fmt, ap); va_end(ap);
	vz_scratch_cleanup();
	emit("viol", prop, tag, msg);
	_exit(3);
}
void vz_inconclusive(const char *why) { vz_scratch_cleanup(); emit("inc", vz_prop, "inconclusive", why); _exit(4); }
void vz_finish(void) { vz_scratch_cleanup(); emit("ok", vz_prop, "-", ""); _exit(0); }

uint8_t *vz_gen2_buf; size_t vz_gen2_len;   /* optional second stream (schedule) filled by target_gen */

/* ------------------------------------------------------------------ scratch directory (removed by the case, or by the batch worker if the case died) */
#include <ftw.h>
static char scratch_path[128];
const char *vz_scratch_dir(void)
{
	if (!scratch_path[0]) { snprintf(scratch_path, sizeof scratch_path, "/tmp/vfz-scratch.%d", (int)getpid()); mkdir(scratch_path, 0700); }
	return scratch_path;
}
static int rm_cb(const char *p, const struct stat *st, int flag, struct FTW *f) { (void)st; (void)flag; (void)f; return remove(p); }
static void scratch_remove(const char *p) { nftw(p, rm_cb, 16, FTW_DEPTH | FTW_PHYS); }
void vz_scratch_cleanup(void) { if (scratch_path[0]) { scratch_remove(scratch_path); scratch_path[0] = 0; } }

/* ------------------------------------------------------------------ case files */
static int hexv(int c) { return c <= '9' ? c - '0' : (c | 32) - 'a' + 10; }
static uint8_t *load_case(const char *path, size_t *n)
{
	FILE *f = fopen(path, "r");
	if (!f) { perror(path); exit(2); }
	char *line = NULL; size_t cap = 0; ssize_t l;
	uint8_t *bytes = calloc(1, 1); *n = 0;
	while ((l = getline(&line, &cap, f)) > 0) {
		while (l > 0 && (line[l - 1] == '\n' || line[l - 1] == '\r')) line[--l] = 0;
		if (line[0] == '#' || line[0] == 0) continue;
		if (!strncmp(line, "bytes=", 6)) {
			size_t hl = strlen(line + 6) / 2;
			bytes = realloc(bytes, hl + 1);
			for (size_t i = 0; i < hl; i++) bytes[i] = hexv(line[6 + 2 * i]) << 4 | hexv(line[7 + 2 * i]);
			*n = hl;
		} else if (!strncmp(line, "bytes2=", 7)) {
			size_t hl = strlen(line + 7) / 2;
			uint8_t *b2 = malloc(hl + 1);
			for (size_t i = 0; i < hl; i++) b2[i] = hexv(line[7 + 2 * i]) << 4 | hexv(line[8 + 2 * i]);
			vz_gen2_buf = b2; vz_gen2_len = hl;
		} else param_set(line);
	}
	free(line); fclose(f);
	return bytes;
}
static void save_case(const char *path, const uint8_t *b, size_t n)
{
	FILE *f = fopen(path, "w");
	if (!f) return;
	fprintf(f, "# verif case\ntarget=%s\n", target_name);
	for (int i = 0; i < nparams; i++) if (strcmp(pkeys[i], "target")) fprintf(f, "%s=%s\n", pkeys[i], pvals[i]);
	if (vz_gen2_len) {
		fprintf(f, "bytes2=");
		for (size_t i = 0; i < vz_gen2_len; i++) fprintf(f, "%02x", vz_gen2_buf[i]);
		fprintf(f, "\n");
	}
	fprintf(f, "bytes=");
	for (size_t i = 0; i < n; i++) fprintf(f, "%02x", b[i]);
	fprintf(f, "\n");
	fclose(f);
}

/* CPU-time watchdog: a case normally needs milliseconds of CPU; one that burns many seconds is spinning.  CPU time (not
 * wall-clock time) is measured, so load on the machine cannot trigger it. */
static void cpu_watchdog(int sig)
{
	(void)sig;
	char p[8]; strncpy(p, vz_prop, 3); p[3] = 0;
	vz_scratch_cleanup();
	emit("viol", p, "cpu-spin", "the case consumed its whole CPU-time budget: the library (or a callback chain it drives) spins without finishing");
	_exit(3);
}
static void run_case(const uint8_t *b, size_t n)
{
	long cpu = vz_param_l("cpu_limit", 6);
	if (cpu > 0) {
		struct itimerval it = { { 0, 0 }, { cpu, 0 } };
		signal(SIGPROF, cpu_watchdog);
		setitimer(ITIMER_PROF, &it, NULL);
	}
	vz_prop = vz_param("prop", "");
	vz_verbose = vz_param_l("verbose", 0);
	ch_init(b, n);
	ch2_init(vz_gen2_buf, vz_gen2_len);
	target_run();
	vz_finish();
}

/* read the result record of a forked case until the case process itself has exited: processes left behind by the case may
 * keep the pipe open, so end-of-file cannot be waited for */
#include <poll.h>
static void collect_result(pid_t pid, int fd, char *res, size_t cap, size_t *rl, int *st)
{
	int exited = 0;
	fcntl(fd, F_SETFL, fcntl(fd, F_GETFL) | O_NONBLOCK);
	for (;;) {
		struct pollfd p = { fd, POLLIN, 0 };
		poll(&p, 1, exited ? 0 : 50);
		ssize_t r;
		char junk[4096];
		while ((r = read(fd, *rl < cap - 1 ? res + *rl : junk, *rl < cap - 1 ? cap - 1 - *rl : sizeof junk)) > 0) if (*rl < cap - 1) *rl += r;
		if (exited) break;
		pid_t w = waitpid(pid, st, WNOHANG);
		if (w == pid || (w < 0 && errno != EINTR)) exited = 1;
	}
	res[*rl] = 0;
	close(fd);
}

/* ------------------------------------------------------------------ batch worker */
#define HSET_BITS 20
static uint64_t *hset; static size_t hset_n;
static int hset_add(uint64_t h)
{
	if (!hset) hset = calloc(1u << HSET_BITS, 8);
	if (!h) h = 1;
	size_t i = h & ((1u << HSET_BITS) - 1);
	for (;;) {
		if (hset[i] == h) return 0;
		if (!hset[i]) { if (hset_n > (1u << HSET_BITS) * 3 / 4) return 0; hset[i] = h; hset_n++; return 1; }
		i = (i + 1) & ((1u << HSET_BITS) - 1);
	}
}

static int batch(int argc, char **argv)
{
	if (argc < 7) { fprintf(stderr, "usage: batch seed first count stride outprefix [k=v...]\n"); return 2; }
	uint64_t seed = strtoull(argv[2], 0, 0), first = strtoull(argv[3], 0, 0), count = strtoull(argv[4], 0, 0), stride = strtoull(argv[5], 0, 0);
	const char *pre = argv[6];
	for (int i = 7; i < argc; i++) param_set(argv[i]);
	long tmo = vz_param_l("timeout", 30);
	long maxfail = vz_param_l("maxfail", 4);
	long nsamples = vz_param_l("samples", 2);
	size_t cap = vz_param_l("cap", 1 << 16);
	uint8_t *buf = malloc(cap);
	char path[512];
	long n_ok = 0, n_viol = 0, n_crash = 0, n_inc = 0, n_nt = 0, n_fail = 0, n_samples = 0;
	long labcnt[64] = {0}; long csum[16] = {0};
	snprintf(path, sizeof path, "%s.stderr", pre);
	char errpath[512]; strcpy(errpath, path);
	signal(SIGPIPE, SIG_IGN);

	for (uint64_t k = 0; k < count; k++) {
		uint64_t idx = first + k * stride;
		vz_gen2_len = 0;
		size_t n = target_gen(seed, idx, buf, cap);
		int pfd[2];
		if (pipe(pfd) < 0) { perror("pipe"); return 2; }
		fflush(stdout);
		pid_t pid = fork();
		if (pid < 0) { perror("fork"); return 2; }
		if (pid == 0) {
			close(pfd[0]);
			int efd = open(errpath, O_WRONLY | O_CREAT | O_TRUNC, 0644);
			if (efd >= 0) { dup2(efd, 2); close(efd); }
			if (pfd[1] != 3) { dup2(pfd[1], 3); close(pfd[1]); }
			fcntl(3, F_SETFD, FD_CLOEXEC);     /* programs exec'ed by a case must not hold the result pipe open */
			res_fd = 3;
			int nfd = open("/dev/null", O_WRONLY); if (nfd >= 0) { dup2(nfd, 1); close(nfd); }
			setpgid(0, 0);
			prctl(PR_SET_PDEATHSIG, SIGKILL);   /* no orphan when the worker is killed from outside */
			alarm(tmo);
			run_case(buf, n);
			_exit(0);
		}
		close(pfd[1]);
		char res[4096]; size_t rl = 0; int st = 0;
		collect_result(pid, pfd[0], res, sizeof res, &rl, &st);
		kill(-pid, SIGKILL);   /* stray helpers of the case (children, threads are gone with it) */
		{ char sp[128]; snprintf(sp, sizeof sp, "/tmp/vfz-scratch.%d", (int)pid); struct stat sb; if (!stat(sp, &sb)) scratch_remove(sp); }
		char *rp = strstr(res, "RES v=");
		const char *kind = NULL; char tag[128] = "-";
		unsigned long long lab = 0, hv = 0; int nt = 0;
		if (rp) {
			char v[16] = "", prop[32] = "";
			sscanf(rp, "RES v=%15s prop=%31s tag=%127s labels=%llx hash=%llx nt=%d", v, prop, tag, &lab, &hv, &nt);
			char *cp = strstr(rp, " c=");
			if (cp) { cp += 3; for (int i = 0; i < 16; i++) { csum[i] += strtol(cp, &cp, 10); if (*cp == ',') cp++; } }
			if (!strcmp(v, "ok") && WIFEXITED(st) && WEXITSTATUS(st) == 0) {
				n_ok++;
				for (int i = 0; i < 64; i++) if (lab >> i & 1) labcnt[i]++;
				if (nt && hset_add(hv)) {
					n_nt++;
					if (n_samples < nsamples) { snprintf(path, sizeof path, "%s.sample%ld.case", pre, n_samples++); save_case(path, buf, n); }
				}
			} else if (!strcmp(v, "viol")) { kind = "viol"; n_viol++; }
			else if (!strcmp(v, "inc")) { n_inc++; }
			else { kind = "crash"; n_crash++; }
		} else if (WIFSIGNALED(st) && WTERMSIG(st) == SIGALRM) {
			n_inc++;
			printf("NOTE idx=%llu timeout\n", (unsigned long long)idx);
		} else { kind = "crash"; n_crash++; snprintf(tag, sizeof tag, "exit%d/sig%d", WIFEXITED(st) ? WEXITSTATUS(st) : -1, WIFSIGNALED(st) ? WTERMSIG(st) : 0); }
		if (kind) {
			snprintf(path, sizeof path, "%s.fail%ld.case", pre, n_fail);
			save_case(path, buf, n);
			char ep[600]; snprintf(ep, sizeof ep, "%s.fail%ld.stderr", pre, n_fail);
			rename(errpath, ep);
			printf("FAIL idx=%llu kind=%s tag=%s file=%s\n", (unsigned long long)idx, kind, tag, path);
			{ char *mp = rp ? strstr(rp, " msg=") : NULL; if (mp) { char *nl = strchr(mp, '\n'); printf("FMSG idx=%llu %.*s\n", (unsigned long long)idx, nl ? (int)(nl - mp - 5) : 300, mp + 5); } }
			fflush(stdout);
			if (++n_fail >= maxfail) break;
		}
	}
	unlink(errpath);
	printf("SUM evals=%ld ok=%ld viol=%ld crash=%ld inc=%ld nt=%ld labels=", n_ok + n_viol + n_crash + n_inc, n_ok, n_viol, n_crash, n_inc, n_nt);
	for (int i = 0; i < 64; i++) printf("%ld%s", labcnt[i], i < 63 ? "," : "");
	printf(" c=");
	for (int i = 0; i < 16; i++) printf("%ld%s", csum[i], i < 15 ? "," : "");
	printf("\n");
	snprintf(path, sizeof path, "%s.hashes", pre);
	FILE *hf = fopen(path, "w");
	if (hf) { if (hset) for (size_t i = 0; i < (1u << HSET_BITS); i++) if (hset[i]) fwrite(&hset[i], 8, 1, hf); fclose(hf); }
	return 0;
}

/* multi <listfile>: every line is "<casefile> k=v k=v ..."; each is run in a forked child; one "MRES <line-no> <RES...>" per line */
static int multi(const char *listfile)
{
	FILE *f = fopen(listfile, "r");
	if (!f) { perror(listfile); return 2; }
	char *line = NULL; size_t cap = 0; ssize_t l; long ln = 0;
	signal(SIGPIPE, SIG_IGN);
	while ((l = getline(&line, &cap, f)) > 0) {
		while (l > 0 && (line[l - 1] == '\n' || line[l - 1] == ' ')) line[--l] = 0;
		if (!l) { ln++; continue; }
		int pfd[2]; if (pipe(pfd) < 0) return 2;
		fflush(stdout);
		pid_t pid = fork();
		if (pid == 0) {
			close(pfd[0]);
			int nfd = open("/dev/null", O_WRONLY); dup2(nfd, 2);
			if (pfd[1] != 3) { dup2(pfd[1], 3); close(pfd[1]); }
			fcntl(3, F_SETFD, FD_CLOEXEC); res_fd = 3; dup2(nfd, 1); close(nfd);
			setpgid(0, 0);
			prctl(PR_SET_PDEATHSIG, SIGKILL);   /* no orphan when the worker is killed from outside */
			char *tok = strtok(line, " ");
			size_t n; uint8_t *b = load_case(tok, &n);
			while ((tok = strtok(NULL, " "))) param_set(tok);
			alarm(vz_param_l("timeout", 30));
			run_case(b, n);
			_exit(0);
		}
		close(pfd[1]);
		char res[4096]; size_t rl = 0; int st = 0;
		collect_result(pid, pfd[0], res, sizeof res, &rl, &st);
		kill(-pid, SIGKILL);
		{ char sp[128]; snprintf(sp, sizeof sp, "/tmp/vfz-scratch.%d", (int)pid); struct stat sb; if (!stat(sp, &sb)) scratch_remove(sp); }
		char *rp = strstr(res, "RES v=");
		if (rp) { char *nl = strchr(rp, '\n'); if (nl) *nl = 0; printf("MRES %ld %s\n", ln, rp); }
		else printf("MRES %ld RES v=%s prop=- tag=exit%d/sig%d labels=0 hash=0 nt=0 c=0,0,0,0,0,0,0,0,0,0,0,0,0,0,0,0 used=0 msg=\n", ln,
			    (WIFSIGNALED(st) && WTERMSIG(st) == SIGALRM) ? "inc" : "crash", WIFEXITED(st) ? WEXITSTATUS(st) : -1, WIFSIGNALED(st) ? WTERMSIG(st) : 0);
		ln++;
	}
	fclose(f);
	return 0;
}

#ifndef VFZ_NO_MAIN
int main(int argc, char **argv)
{
	if (argc >= 3 && !strcmp(argv[1], "multi")) { prctl(PR_SET_PDEATHSIG, SIGKILL); return multi(argv[2]); }
	if (argc >= 3 && !strcmp(argv[1], "run")) {
		size_t n; uint8_t *b = load_case(argv[2], &n);
		for (int i = 3; i < argc; i++) param_set(argv[i]);
		const char *rf = getenv("VFZ_RESFD"); if (rf) res_fd = atoi(rf);
		alarm(vz_param_l("timeout", 60));
		run_case(b, n);
		return 0;
	}
	if (argc >= 2 && !strcmp(argv[1], "batch")) { prctl(PR_SET_PDEATHSIG, SIGKILL); return batch(argc, argv); }
	if (argc >= 4 && !strcmp(argv[1], "gen")) {
		for (int i = 4; i < argc; i++) param_set(argv[i]);
		size_t cap = 1 << 16; uint8_t *buf = malloc(cap);
		size_t n = target_gen(strtoull(argv[2], 0, 0), strtoull(argv[3], 0, 0), buf, cap);
		save_case("/dev/stdout", buf, n);
		return 0;
	}
	fprintf(stderr, "usage: %s run <case> [k=v..] | batch seed first count stride outprefix [k=v..] | gen seed idx [k=v..]\n", argv[0]);
	return 2;
}
#endif
