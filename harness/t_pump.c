/*
 * t_pump -- C17: iv_fd_pump against byte-stream equality, an externally computed buffered-byte
 * count, and return-code / band rules.  No event loop: the harness drives iv_fd_pump_pump()
 * either band-driven (only when a requested band is ready per poll(2)) or freely.
 * read/write/splice/shutdown issued by the library are interposed for fault injection and for the
 * EOF-ordering check.
 */
#ifndef _GNU_SOURCE
#define _GNU_SOURCE
#endif
#include "vfz.h"
#include <errno.h>
#include <fcntl.h>
#include <poll.h>
#include <signal.h>
#include <stdio.h>
#include <stdlib.h>
#include <string.h>
#include <unistd.h>
#include <sys/ioctl.h>
#include <sys/socket.h>
#include <iv.h>
#include <iv_fd_pump.h>

const char *target_name = "pump";

enum { L_BUFFER_FULL, L_EOF_WITH_DATA, L_HARD_ERROR_BUFFERED, L_SPLICE, L_READWRITE, L_RELAY_EOF, L_SHORT_IO, L_EAGAIN_INJ, L_EINTR_INJ,
       L_DESTROY_MIDSTREAM, L_SECOND_PUMP, L_DONE, L_FREE_MODE, L_SOCK_IN, L_SOCK_OUT, L_PEER_GONE, L_BIG, L_BACKPRESSURE, L_EOF_RELAYED, L_EMPTY_STREAM, L_CROWD, L_CROWD_OVER_CACHE };

ssize_t __real_read(int, void *, size_t);
ssize_t __real_write(int, const void *, size_t);
ssize_t __real_splice(int, loff_t *, int, loff_t *, size_t, unsigned);
int __real_shutdown(int, int);

#define FAIL(tag, ...) vz_fail("C17", tag, __VA_ARGS__)

/* ------------------------------------------------------------------ session state */
static int io_active;              /* library I/O is being interposed */
static int in_fd, in_peer, out_fd, out_peer;   /* pump reads in_fd, writes out_fd; harness owns the peers */
static int in_is_sock, out_is_sock;
static int in_closed, out_peer_closed;
static long written, consumed;     /* bytes the harness wrote to the input / read from the output */
static long lost_out;              /* bytes that were in the output channel when its reader went away */
static int relay_eof, no_splice, free_mode;
static int fault_pct, hard_error_armed, hard_error_hit, hard_errno, hard_error_on_write;
static int pollin_req, pollout_req, bands_calls;
static int shutdown_seen;
static int session_no;
static unsigned char pat(long i) { return (unsigned char)((i * 131 + i / 251 + session_no * 17) & 0xff); }

static long avail(int fd) { int n = 0; if (ioctl(fd, FIONREAD, &n) < 0) return 0; return n; }
static long buffered(void)
{
	/* everything written to the input that is neither still in the input channel, nor in the output channel, nor consumed */
	return written - avail(in_fd) - (out_peer_closed ? lost_out : avail(out_peer)) - consumed;
}

static void set_bands(void *cookie, int pi, int po)
{
	(void)cookie;
	pollin_req = !!pi; pollout_req = !!po; bands_calls++;
}

/* ------------------------------------------------------------------ interposed library I/O */
static int inject(int is_write)
{
	/* returns 0 none, 1 short, 2 EAGAIN, 3 EINTR, 4 hard error */
	if (hard_error_armed && is_write == hard_error_on_write && ch_n(4) == 0) { hard_error_armed = 0; hard_error_hit = 1; return 4; }
	if (!fault_pct || !ch_pct(fault_pct)) return 0;
	return 1 + ch_n(3);
}
ssize_t __wrap_read(int fd, void *buf, size_t n)
{
	if (!io_active || fd != in_fd) return __real_read(fd, buf, n);
	switch (inject(0)) {
	case 1: vz_label(L_SHORT_IO); if (n > 1) n = 1 + ch_n(n > 300 ? 300 : n - 1); break;
	case 2: vz_label(L_EAGAIN_INJ); errno = EAGAIN; return -1;
	case 3: vz_label(L_EINTR_INJ); errno = EINTR; return -1;
	case 4: errno = hard_errno; return -1;
	}
	return __real_read(fd, buf, n);
}
ssize_t __wrap_write(int fd, const void *buf, size_t n)
{
	if (!io_active || fd != out_fd) return __real_write(fd, buf, n);
	switch (inject(1)) {
	case 1: vz_label(L_SHORT_IO); if (n > 1) n = 1 + ch_n(n > 300 ? 300 : n - 1); break;
	case 2: vz_label(L_EAGAIN_INJ); errno = EAGAIN; return -1;
	case 3: vz_label(L_EINTR_INJ); errno = EINTR; return -1;
	case 4: errno = hard_errno; return -1;
	}
	return __real_write(fd, buf, n);
}
static int splice_probe_fail;
ssize_t __wrap_splice(int fdin, loff_t *oi, int fdout, loff_t *oo, size_t n, unsigned flags)
{
	if (splice_probe_fail && fdin != in_fd && fdout != out_fd) { errno = EINVAL; return -1; }   /* the availability probe (pipe to pipe) */
	if (!io_active || (fdin != in_fd && fdout != out_fd)) return __real_splice(fdin, oi, fdout, oo, n, flags);
	int w = fdout == out_fd;
	switch (inject(w)) {
	case 1: vz_label(L_SHORT_IO); if (n > 1) n = 1 + ch_n(n > 300 ? 300 : n - 1); break;
	case 2: vz_label(L_EAGAIN_INJ); errno = EAGAIN; return -1;
	case 3: vz_label(L_EINTR_INJ); errno = EINTR; return -1;
	case 4: errno = hard_errno; return -1;
	}
	return __real_splice(fdin, oi, fdout, oo, n, flags);
}
int __wrap_shutdown(int fd, int how)
{
	if (io_active && fd == out_fd) {
		shutdown_seen++;
		if (!relay_eof) FAIL("shutdown-without-relay-flag", "shutdown() on the output although IV_FD_PUMP_FLAG_RELAY_EOF is not set");
		if (how != SHUT_WR) FAIL("shutdown-how", "shutdown(how=%d)", how);
		if (!in_closed || avail(in_fd) > 0) FAIL("eof-relayed-before-eof", "output shut down although the input is not at end-of-file");
		long b = buffered();
		if (b != 0) FAIL("eof-relayed-before-drain", "output shut down while %ld bytes are still buffered in the pump", b);
		if (shutdown_seen > 1) FAIL("eof-relayed-twice", "shutdown() called %d times", shutdown_seen);
		vz_label(L_EOF_RELAYED);
	}
	return __real_shutdown(fd, how);
}

/* ------------------------------------------------------------------ helpers */
static void nb(int fd) { fcntl(fd, F_SETFL, fcntl(fd, F_GETFL) | O_NONBLOCK); }
static void make_chan(int sock, int *a, int *b, int small)
{
	int p[2];
	if (sock) {
		if (socketpair(AF_UNIX, SOCK_STREAM, 0, p) < 0) vz_inconclusive("socketpair");
		if (small) { int sz = 2048; setsockopt(p[0], SOL_SOCKET, SO_SNDBUF, &sz, sizeof sz); setsockopt(p[1], SOL_SOCKET, SO_SNDBUF, &sz, sizeof sz); }
	} else {
		if (pipe(p) < 0) vz_inconclusive("pipe");
		if (small) { fcntl(p[0], F_SETPIPE_SZ, 4096); }
	}
	*a = p[0]; *b = p[1];
}
static unsigned char *rxbuf; static long rxcap;

static void consume(long want)
{
	if (out_peer_closed) return;
	static unsigned char tmp[65536];
	while (want > 0) {
		ssize_t r = __real_read(out_peer, tmp, want > (long)sizeof tmp ? sizeof tmp : (size_t)want);
		if (r <= 0) break;
		for (ssize_t k = 0; k < r; k++)
			if (tmp[k] != pat(consumed + k))
				FAIL("stream-corrupt", "output byte at offset %ld is 0x%02x, input had 0x%02x (loss, duplication or reordering)", consumed + k, tmp[k], pat(consumed + k));
		consumed += r; want -= r;
	}
	if (consumed > written) FAIL("stream-invented", "consumer read %ld bytes, only %ld were written", consumed, written);
}
static void in_write(long n)
{
	if (in_closed) return;
	static unsigned char tmp[65536];
	while (n > 0) {
		long c = n > (long)sizeof tmp ? (long)sizeof tmp : n;
		for (long k = 0; k < c; k++) tmp[k] = pat(written + k);
		ssize_t r = __real_write(in_peer, tmp, c);
		if (r <= 0) break;
		written += r; n -= r;
		if (r < c) break;
	}
}

static int ready(int fd, int ev) { struct pollfd p = { fd, ev, 0 }; poll(&p, 1, 0); return p.revents & (ev | POLLHUP | POLLERR); }

struct pstate { int eof_certain; int done; int prev_pollin; long calls; int error; };

/* one iv_fd_pump_pump() call with all oracles around it */
static int do_pump(struct iv_fd_pump *ip, struct pstate *ps)
{
	long b0 = buffered(), in_av0 = avail(in_fd), outside0 = (out_peer_closed ? lost_out : avail(out_peer)) + consumed;
	int at_eof0 = in_closed && in_av0 == 0;
	int prev_pollin = pollin_req;
	int calls0 = bands_calls;
	io_active = 1;
	int ret = iv_fd_pump_pump(ip);
	io_active = 0;
	ps->calls++;
	long b1 = buffered(), outside1 = (out_peer_closed ? lost_out : avail(out_peer)) + consumed;
	long moved_out = outside1 - outside0;
	vz_log("  pump -> %d  bands in=%d out=%d  buffered %ld->%ld moved_out=%ld in_avail=%ld%s", ret, pollin_req, pollout_req, b0, b1, moved_out, in_av0, at_eof0 ? " (input at EOF)" : "");
	if (b1 < 0) FAIL("negative-buffered", "more bytes left the pump than entered it (%ld)", b1);
	if (ret < -1 || ret > 1) FAIL("bad-return", "iv_fd_pump_pump returned %d", ret);
	if (ret == -1) {
		if (!hard_error_hit && !out_peer_closed) FAIL("spurious-error", "pump returned -1 without an I/O error (buffered %ld)", b1);
		if (b0 > 0 || b1 > 0) vz_label(L_HARD_ERROR_BUFFERED);
		ps->error = 1;
		return ret;
	}
	if (hard_error_hit) FAIL("error-swallowed", "a transfer failed with errno %d but the pump returned %d", hard_errno, ret);
	if (ps->done) {
		if (ret != 0) FAIL("not-sticky-done", "pump returned %d after it had returned 0", ret);
		if (moved_out) FAIL("output-after-done", "pump moved %ld bytes after it was done", moved_out);
	}
	if (bands_calls == calls0) FAIL("no-set-bands", "pump call did not report its bands");
	if (pollout_req != (b1 > 0)) FAIL("pollout-wrong", "pump requests pollout=%d but %ld bytes are buffered", pollout_req, b1);
	if (ret == 0) {
		if (!at_eof0 && !(in_closed && avail(in_fd) == 0)) FAIL("done-before-eof", "pump returned 0 but the input is not at end-of-file");
		if (b1 != 0) FAIL("done-with-data", "pump returned 0 with %ld bytes still buffered", b1);
		if (pollin_req || pollout_req) FAIL("bands-after-done", "pump returned 0 but requests bands in=%d out=%d", pollin_req, pollout_req);
		if (!iv_fd_pump_is_done(ip)) FAIL("is-done-false", "iv_fd_pump_is_done() false after pump returned 0");
		if (relay_eof && out_is_sock && !shutdown_seen) FAIL("eof-not-relayed", "pump is done but never shut the output down (RELAY_EOF set)");
		ps->done = 1; vz_label(L_DONE);
	} else {
		if (iv_fd_pump_is_done(ip)) FAIL("is-done-true", "iv_fd_pump_is_done() true although pump returned 1");
		/* input was attempted in this call iff the previous report asked for input */
		if (at_eof0 && prev_pollin && b0 == 0 && b1 == 0 && !fault_pct)
			FAIL("not-done-at-eof", "input at end-of-file, nothing buffered, input was polled, yet pump returned 1");
		if (!pollin_req && !pollout_req) FAIL("stall-no-bands", "pump returned 1 but requests neither band");
		if (!pollin_req) {
			/* legitimate only if the buffer is full (then data is buffered) or end-of-file was read */
			if (b1 == 0 && !at_eof0) FAIL("pollin-dropped", "pump stopped requesting input with an empty buffer and no end-of-file");
			if (!at_eof0) vz_label(L_BUFFER_FULL);
			if (at_eof0 && b1 > 0) vz_label(L_EOF_WITH_DATA);
		}
		if (pollin_req && moved_out == 0 && b1 > 0 && !at_eof0 && 0) { /* no rule: buffer may have space */ }
		if (!pollin_req && moved_out > 0 && !at_eof0)
			FAIL("pollin-not-restored", "pump moved %ld bytes to the output (space was made) but does not request input again", moved_out);
		/* (a call that starts with a full buffer does not look at the input at all: it drains first and asks for input again.
		 * In splice mode "full" is a matter of pipe buffer slots, sixteen one-byte chunks fill it, so any buffered data may mean
		 * full; in read/write mode it is the 4096-byte buffer) */
		if (at_eof0 && prev_pollin && pollin_req && !fault_pct && !(no_splice == 0 && (b1 > 0 || b0 > 0)) && !(no_splice && b0 >= 4096))
			FAIL("pollin-after-eof", "pump read end-of-file but still requests input");
	}
	if (b1 > 0 && !pollin_req) vz_label(L_BACKPRESSURE);
	return ret;
}

static void run_session(void)
{
	struct iv_fd_pump *ip = malloc(sizeof *ip);
	memset(ip, 0xA5, sizeof *ip);
	struct pstate ps = { 0 };
	in_is_sock = ch_n(2); out_is_sock = ch_n(2);
	int small_in = ch_n(2), small_out = ch_n(3) != 0;
	relay_eof = ch_n(2);
	free_mode = ch_n(4) == 0;
	fault_pct = (int[]){ 0, 0, 10, 35 }[ch_n(4)];
	hard_error_armed = ch_n(6) == 0; hard_error_hit = 0; hard_errno = (int[]){ EPIPE, ECONNRESET, EIO }[ch_n(3)]; hard_error_on_write = ch_n(3) != 0; if (!hard_error_on_write && hard_errno == EPIPE) hard_errno = ECONNRESET;
	long total = (long[]){ 0, 1, 100, 4095, 4096, 4097, 20000, 70000, 300000 }[ch_n(9)] + ch_n(50);
	if (total > 250000) vz_label(L_BIG);
	if (total == 0) vz_label(L_EMPTY_STREAM);
	int a, b;
	make_chan(in_is_sock, &a, &b, small_in); in_fd = a; in_peer = b; if (!in_is_sock) { in_fd = a; in_peer = b; }
	make_chan(out_is_sock, &a, &b, small_out);
	if (out_is_sock) { out_fd = a; out_peer = b; } else { out_fd = b; out_peer = a; }
	nb(in_fd); nb(out_fd); nb(in_peer); nb(out_peer);
	in_closed = out_peer_closed = 0; written = consumed = 0; lost_out = 0; shutdown_seen = 0; bands_calls = 0; pollin_req = pollout_req = 0;
	if (in_is_sock) vz_label(L_SOCK_IN);
	if (out_is_sock) vz_label(L_SOCK_OUT);
	if (relay_eof) vz_label(L_RELAY_EOF);
	if (free_mode) vz_label(L_FREE_MODE);
	vz_log("session %d: in=%s%s out=%s%s relay_eof=%d mode=%s faults=%d%% hard-error=%s total=%ld", session_no, in_is_sock ? "socket" : "pipe", small_in ? "(small)" : "",
	       out_is_sock ? "socket" : "pipe", small_out ? "(small)" : "", relay_eof, free_mode ? "free" : "band-driven", fault_pct, hard_error_armed ? "armed" : "no", total);
	vz_hash_u(in_is_sock * 8 + out_is_sock * 4 + relay_eof * 2 + free_mode); vz_hash_u(total); vz_hash_u(fault_pct);

	IV_FD_PUMP_INIT(ip);
	ip->from_fd = in_fd; ip->to_fd = out_fd; ip->cookie = NULL; ip->set_bands = set_bands; ip->flags = relay_eof ? IV_FD_PUMP_FLAG_RELAY_EOF : 0;
	iv_fd_pump_init(ip);
	if (bands_calls != 1 || !pollin_req || pollout_req) FAIL("init-bands", "iv_fd_pump_init reported bands in=%d out=%d (%d calls)", pollin_req, pollout_req, bands_calls);

	int destroyed_mid = 0;
	long steps = 0;
	while (!ps.done && !ps.error && steps++ < 3000) {
		unsigned op = ch_exhausted() ? 100 : ch_n(10);
		if (op <= 2 && written < total && !in_closed) { long n = 1 + ch_n(3) * ch_n(3000) + ch_n(200); if (n > total - written) n = total - written; in_write(n); vz_log(" write %ld -> total %ld", n, written); vz_hash_u(0x100 + n); }
		else if (op == 3 && written >= total && !in_closed) { close(in_peer); in_closed = 1; vz_log(" close input"); vz_hash_u(0x200); }
		else if (op <= 5) { long n = 1 + ch_n(3) * ch_n(5000) + ch_n(100); long c0 = consumed; consume(n); vz_log(" consumer reads %ld", consumed - c0); vz_hash_u(0x300 + n); }
		else if (op == 6 && ch_n(40) == 0 && !out_peer_closed) { lost_out = avail(out_peer); close(out_peer); out_peer_closed = 1; vz_label(L_PEER_GONE); vz_log(" output peer closes"); vz_hash_u(0x400); }
		else if (op == 7 && ch_n(30) == 0) { destroyed_mid = 1; break; }
		else if (op == 100) {
			/* choices exhausted: drive to completion */
			if (written < total) in_write(total - written);
			else if (!in_closed) { close(in_peer); in_closed = 1; }
			consume(1 << 30);
		}
		/* pump */
		int want = (pollin_req && ready(in_fd, POLLIN)) || (pollout_req && ready(out_fd, POLLOUT));
		if (want || (free_mode && ch_n(3) == 0)) do_pump(ip, &ps);
		else if (op == 100 && in_closed && written >= total) {
			/* nothing the pump asked for can happen any more although the stream is not finished */
			consume(1 << 30);
			int again = (pollin_req && ready(in_fd, POLLIN)) || (pollout_req && ready(out_fd, POLLOUT));
			if (!again) FAIL("stall", "pump is not done (buffered %ld, consumed %ld of %ld) but none of its requested bands (in=%d out=%d) can become ready", buffered(), consumed, written, pollin_req, pollout_req);
		}
	}
	if (ps.done) {
		consume(1 << 30);
		if (!out_peer_closed && consumed != written) FAIL("stream-truncated", "pump is done but only %ld of %ld bytes arrived", consumed, written);
		/* extra calls after completion */
		for (int k = ch_n(3); k > 0; k--) do_pump(ip, &ps);
		if (relay_eof && out_is_sock && !out_peer_closed) {
			char c; ssize_t r = __real_read(out_peer, &c, 1);
			if (r != 0) FAIL("eof-not-visible", "consumer does not see end-of-file after the pump finished (read -> %zd)", r);
		}
	} else if (!ps.error && !destroyed_mid && steps >= 3000) vz_inconclusive("step budget");
	if (destroyed_mid || (!ps.done && !ps.error)) { if (buffered() > 0) vz_label(L_DESTROY_MIDSTREAM); vz_log(" destroy (buffered %ld)", buffered()); }
	int bc = bands_calls;
	io_active = 1;
	iv_fd_pump_destroy(ip);
	io_active = 0;
	if (!ps.done && bands_calls == bc) FAIL("destroy-no-bands", "iv_fd_pump_destroy did not clear the bands");
	if (!ps.done && (pollin_req || pollout_req)) FAIL("destroy-bands", "iv_fd_pump_destroy left bands in=%d out=%d", pollin_req, pollout_req);
	memset(ip, 0x5A, sizeof *ip); free(ip);
	if (!in_closed) close(in_peer);
	if (!out_peer_closed) close(out_peer);
	close(in_fd); close(out_fd);
	vz_count(0, ps.calls);
}

/* ------------------------------------------------------------------ a crowd of pumps in one thread
 * Many connections of one thread are back-pressured at the same time and then drain: more relay buffers become idle at once
 * than the per-thread cache keeps (the sessions that follow take their buffers from that cache). */
struct crowd { struct iv_fd_pump *ip; int in[2], out[2]; int pin, pout; long fill; };
static void crowd_bands(void *cookie, int pi, int po) { struct crowd *c = cookie; c->pin = pi; c->pout = po; }
static void run_crowd(void)
{
	static struct crowd cr[32];
	int n = 17 + ch_n(10), len = 1 + ch_n(3000), backwards = ch_n(2);
	vz_label(L_CROWD); if (n > 20) vz_label(L_CROWD_OVER_CACHE);
	vz_log("crowd: %d pumps blocked with %d bytes each, then drained %s", n, len, backwards ? "last to first" : "first to last");
	vz_hash_u(0x5000 + n); vz_hash_u(len);
	static unsigned char tmp[8192];
	for (int i = 0; i < n; i++) {
		struct crowd *c = &cr[i];
		if (pipe(c->in) < 0 || pipe(c->out) < 0) vz_inconclusive("pipe");
		fcntl(c->out[1], F_SETPIPE_SZ, 4096);
		nb(c->in[0]); nb(c->in[1]); nb(c->out[0]); nb(c->out[1]);
		c->fill = 0; memset(tmp, 0xEE, sizeof tmp);
		for (;;) { ssize_t w = __real_write(c->out[1], tmp, sizeof tmp); if (w <= 0) break; c->fill += w; }     /* output blocked */
		for (int k = 0; k < len; k++) tmp[k] = pat(k + i);
		if (__real_write(c->in[1], tmp, len) != len) vz_inconclusive("crowd input");
		c->ip = malloc(sizeof *c->ip); memset(c->ip, 0xA5, sizeof *c->ip);
		IV_FD_PUMP_INIT(c->ip);
		c->ip->from_fd = c->in[0]; c->ip->to_fd = c->out[1]; c->ip->cookie = c; c->ip->set_bands = crowd_bands; c->ip->flags = 0;
		iv_fd_pump_init(c->ip);
		int r = iv_fd_pump_pump(c->ip);
		if (r != 1) FAIL("crowd-blocked-pump", "pump %d of %d (input readable, output blocked) returned %d, expected 1", i, n, r);
		if (!c->pout) FAIL("crowd-bands", "pump %d of %d holds data for a blocked output but does not ask for the output band", i, n);
	}
	for (int j = 0; j < n; j++) {
		struct crowd *c = &cr[backwards ? n - 1 - j : j];
		long got = 0; for (;;) { ssize_t r = __real_read(c->out[0], tmp, sizeof tmp); if (r <= 0) break; got += r; }
		if (got != c->fill) FAIL("crowd-fill", "output pipe held %ld filler bytes, %ld written", got, c->fill);
		int r = iv_fd_pump_pump(c->ip);
		if (r != 1) FAIL("crowd-drain-pump", "pump (input open, output writable again) returned %d, expected 1", r);
		ssize_t rd = __real_read(c->out[0], tmp, sizeof tmp);
		if (rd != len) FAIL("crowd-bytes", "%zd of %d buffered bytes arrived after the output became writable", rd, len);
		else for (int k = 0; k < len; k++) if (tmp[k] != pat(k + (int)(c - cr))) { FAIL("crowd-bytes", "byte %d of the relayed data differs", k); break; }
		if (!c->pin || c->pout) FAIL("crowd-bands", "drained pump asks for bands in=%d out=%d", c->pin, c->pout);
	}
	for (int i = 0; i < n; i++) {
		struct crowd *c = &cr[i];
		iv_fd_pump_destroy(c->ip);
		memset(c->ip, 0x5A, sizeof *c->ip); free(c->ip);
		close(c->in[0]); close(c->in[1]); close(c->out[0]); close(c->out[1]);
	}
}

void target_run(void)
{
	signal(SIGPIPE, SIG_IGN);
	no_splice = ch_n(2);
	long fs = vz_param_l("no_splice", -1); if (fs >= 0) no_splice = fs;
	splice_probe_fail = no_splice;
	vz_label(no_splice ? L_READWRITE : L_SPLICE);
	vz_hash_u(no_splice);
	rxcap = 0; (void)rxbuf;
	iv_init();
	if (ch_n(6) == 0) run_crowd();
	int nsess = 1 + ch_n(3);
	for (session_no = 0; session_no < nsess; session_no++) {
		if (session_no) vz_label(L_SECOND_PUMP);
		run_session();
		if (ch_exhausted() && session_no >= 1) break;
	}
	iv_deinit();
	if ((vz_has_label(L_BUFFER_FULL) && vz_has_label(L_EOF_WITH_DATA)) || vz_has_label(L_HARD_ERROR_BUFFERED) || (vz_has_label(L_DESTROY_MIDSTREAM) && vz_has_label(L_SECOND_PUMP)))
		vz_nontrivial();
}

size_t target_gen(uint64_t seed, uint64_t index, uint8_t *buf, size_t cap)
{
	struct vz_rng r; rng_seed(&r, seed, index);
	return vz_gen_default(&r, buf, cap, 24, 500);
}
