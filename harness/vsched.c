#ifndef _GNU_SOURCE
#define _GNU_SOURCE
#endif
#include "vsched.h"
#include "vfz.h"
#include <errno.h>
#include <pthread.h>
#include <semaphore.h>
#include <stdio.h>
#include <stdlib.h>
#include <string.h>
#include <unistd.h>

enum st { S_FREE, S_NEW, S_RUNNING, S_READY, S_BLK_MUTEX, S_BLK_WAIT, S_BLK_JOIN, S_BLK_ALL, S_FINISHED };
static const char *st_name[] = { "free", "new", "running", "ready", "blocked-on-mutex", "blocked-in-wait", "blocked-in-join", "waiting-for-all", "finished" };

struct sthr {
	enum st st; pthread_t tid; sem_t sem;
	void *mutex; int is_spin;
	struct vk_wait wait;
	int join_target;
	void *(*fn)(void *); void *arg;
	int exit_rounds, joins;
};
static struct sthr thr[SCHED_MAXT];
static int nthr, cur;
static __thread int my_slot = -1;
static pthread_key_t exit_key; static int exit_key_made;
int sched_active;
unsigned long sched_step, sched_switches;
void (*sched_on_deadlock)(const char *);
void (*sched_on_idle)(void);
void (*sched_on_switch)(const char *, int, int);
void (*sched_on_point)(const char *);
int sched_fail_next_create;

int __real_pthread_mutex_lock(pthread_mutex_t *);
int __real_pthread_mutex_unlock(pthread_mutex_t *);
int __real_pthread_mutex_destroy(pthread_mutex_t *);
int __real_pthread_spin_lock(pthread_spinlock_t *);
int __real_pthread_spin_unlock(pthread_spinlock_t *);
int __real_pthread_create(pthread_t *, const pthread_attr_t *, void *(*)(void *), void *);
int __real_pthread_join(pthread_t, void **);

/* ------------------------------------------------------------------ lock table */
#define NLOCK 256
static struct { void *addr; int owner; } locks[NLOCK];
static int lock_find(void *a, int create)
{
	int free_i = -1;
	for (int i = 0; i < NLOCK; i++) {
		if (locks[i].addr == a) return i;
		if (!locks[i].addr && free_i < 0) free_i = i;
	}
	if (!create || free_i < 0) return -1;
	locks[free_i].addr = a; locks[free_i].owner = -1;
	return free_i;
}
static int lock_held(void *a) { int i = lock_find(a, 0); return i >= 0 && locks[i].owner >= 0; }

/* ------------------------------------------------------------------ core */
int sched_self(void) { return sched_active ? my_slot : -1; }
int sched_nthreads(void) { return nthr; }
int sched_thread_finished(int s) { return thr[s].st == S_FINISHED; }
int sched_join_count(int s) { return thr[s].joins; }
static int runnable(int i);
/* true if no other thread can be in the middle of a library call: all others are parked in a wait, a join, or gone */
int sched_all_others_parked(void)
{
	for (int i = 0; i < nthr; i++) {
		if (i == my_slot) continue;
		if (thr[i].st == S_READY || thr[i].st == S_NEW || thr[i].st == S_RUNNING || thr[i].st == S_BLK_MUTEX) return 0;
		if ((thr[i].st == S_BLK_WAIT || thr[i].st == S_BLK_JOIN || thr[i].st == S_BLK_ALL) && runnable(i)) return 0;   /* parked, but about to go on */
	}
	return 1;
}
/* pthread_t values are recycled after a join: the not-yet-joined thread with this id is the one meant */
int sched_slot_of(pthread_t t) { for (int i = nthr - 1; i >= 0; i--) if (thr[i].st != S_FREE && thr[i].joins == 0 && pthread_equal(thr[i].tid, t)) return i; return -1; }

static void semwait(sem_t *s) { while (sem_wait(s) < 0 && errno == EINTR) ; }

static int wait_ready(struct sthr *t)
{
	if (t->wait.deadline <= vk_now()) return 1;
	if (t->wait.epfd >= 0) { struct pollfd p = { t->wait.epfd, POLLIN, 0 }; return __real_poll(&p, 1, 0) > 0; }
	return __real_poll(t->wait.pfds, t->wait.npfds, 0) > 0;
}
static int runnable(int i)
{
	struct sthr *t = &thr[i];
	switch (t->st) {
	case S_READY: return 1;
	case S_BLK_MUTEX: return !lock_held(t->mutex);
	case S_BLK_WAIT: return wait_ready(t);
	case S_BLK_JOIN: return thr[t->join_target].st == S_FINISHED;
	case S_BLK_ALL: for (int k = 0; k < nthr; k++) if (k != i && thr[k].st != S_FINISHED && thr[k].st != S_FREE) return 0; return 1;
	default: return 0;
	}
}

static char descbuf[1024];
const char *sched_describe(void)
{
	int n = 0;
	for (int i = 0; i < nthr && n < (int)sizeof descbuf - 80; i++) {
		n += snprintf(descbuf + n, sizeof descbuf - n, "T%d:%s", i, st_name[thr[i].st]);
		if (thr[i].st == S_BLK_WAIT) n += snprintf(descbuf + n, sizeof descbuf - n, "(%s,timeout=%lld)", vk_prim_name[thr[i].wait.prim], (long long)thr[i].wait.timeout_ns);
		if (thr[i].st == S_BLK_JOIN) n += snprintf(descbuf + n, sizeof descbuf - n, "(T%d)", thr[i].join_target);
		if (thr[i].st == S_BLK_MUTEX) { int li = lock_find(thr[i].mutex, 0); n += snprintf(descbuf + n, sizeof descbuf - n, "(held by T%d)", li >= 0 ? locks[li].owner : -1); }
		n += snprintf(descbuf + n, sizeof descbuf - n, " ");
	}
	return descbuf;
}

/* pick the next thread to run.  `me_can_run`: the calling thread is itself a candidate (plain yield). */
static int pick_next(int me, int me_can_run)
{
	for (;;) {
		int cand[SCHED_MAXT], n = 0;
		if (me_can_run) cand[n++] = me;
		for (int i = 0; i < nthr; i++) if (i != me && runnable(i)) cand[n++] = i;
		if (n) return cand[ch2_n(n)];
		/* nobody can run: let virtual time pass to the earliest deadline */
		int64_t d = VK_INF;
		for (int i = 0; i < nthr; i++) if (thr[i].st == S_BLK_WAIT && thr[i].wait.deadline < d) d = thr[i].wait.deadline;
		if (sched_on_idle) sched_on_idle();
		if (d == VK_INF) {
			if (sched_on_deadlock) sched_on_deadlock(sched_describe());
			fprintf(stderr, "sched: deadlock: %s\n", sched_describe());
			abort();
		}
		vk_advance_to(d);
	}
}

static void hand_over(int me, int next, const char *why)
{
	if (next == me) { thr[me].st = S_RUNNING; return; }
	sched_switches++;
	if (sched_on_switch) sched_on_switch(why, me, next);
	thr[next].st = S_RUNNING;
	cur = next;
	sem_post(&thr[next].sem);
	if (thr[me].st != S_FINISHED) {
		semwait(&thr[me].sem);
		thr[me].st = S_RUNNING;
	}
}

/* give every other runnable thread a chance first (for harness-level polling loops, which must not depend on the
 * schedule stream choosing somebody else) */
int sched_other_runnable(void)
{
	if (!sched_active || my_slot < 0) return 0;
	for (int i = 0; i < nthr; i++) if (i != my_slot && runnable(i)) return 1;
	return 0;
}
void sched_yield_to_others(const char *why)
{
	if (!sched_active || my_slot < 0) return;
	int me = my_slot, cand[SCHED_MAXT], n = 0;
	sched_step++;
	for (int i = 0; i < nthr; i++) if (i != me && runnable(i)) cand[n++] = i;
	if (!n) {
		/* the caller polls for something only another thread can do, and nobody else can run: no progress is possible */
		if (sched_on_deadlock) sched_on_deadlock(sched_describe());
		fprintf(stderr, "sched: deadlock in %s: %s\n", why, sched_describe());
		abort();
	}
	thr[me].st = S_READY;
	hand_over(me, cand[ch2_n(n)], why);
}
void sched_point(const char *why)
{
	if (!sched_active || my_slot < 0) return;
	if (sched_on_point) sched_on_point(why);
	int me = my_slot;
	sched_step++;
	thr[me].st = S_READY;
	hand_over(me, pick_next(me, 1), why);
}

/* pick_next() with me_can_run=0 skips `me`; but when time advances, `me` may be the one whose deadline was reached */
static int pick_next_blocking(int me)
{
	for (;;) {
		int cand[SCHED_MAXT], n = 0;
		for (int i = 0; i < nthr; i++) if (runnable(i)) cand[n++] = i;
		if (n) return cand[ch2_n(n)];
		int64_t d = VK_INF;
		for (int i = 0; i < nthr; i++) if (thr[i].st == S_BLK_WAIT && thr[i].wait.deadline < d) d = thr[i].wait.deadline;
		if (sched_on_idle) sched_on_idle();
		if (d == VK_INF) {
			if (sched_on_deadlock) sched_on_deadlock(sched_describe());
			fprintf(stderr, "sched: deadlock: %s\n", sched_describe());
			abort();
		}
		vk_advance_to(d);
	}
	(void)me;
}
static void block2(enum st st, const char *why)
{
	int me = my_slot;
	sched_step++;
	thr[me].st = st;
	int next = pick_next_blocking(me);
	hand_over(me, next, why);
}

/* ------------------------------------------------------------------ thread life cycle */
static void exit_dtor(void *v)
{
	int s = (int)(intptr_t)v - 1;
	if (++thr[s].exit_rounds < 3) { pthread_setspecific(exit_key, v); return; }
	/* library destructors of this thread have run (under the baton): leave the schedule */
	sched_step++;
	thr[s].st = S_FINISHED;
	int others = 0;
	for (int i = 0; i < nthr; i++) if (i != s && thr[i].st != S_FINISHED && thr[i].st != S_FREE) others++;
	if (!others) return;
	int next = pick_next_blocking(s);
	hand_over(s, next, "thread-exit");
}
static void *tramp(void *p)
{
	int s = (int)(intptr_t)p;
	my_slot = s;
	semwait(&thr[s].sem);
	pthread_setspecific(exit_key, (void *)(intptr_t)(s + 1));
	return thr[s].fn(thr[s].arg);
}
void sched_init(void)
{
	if (!exit_key_made) { pthread_key_create(&exit_key, exit_dtor); exit_key_made = 1; }
	memset(thr, 0, sizeof thr); memset(locks, 0, sizeof locks);
	nthr = 1; cur = 0; my_slot = 0;
	thr[0].st = S_RUNNING; thr[0].tid = pthread_self(); sem_init(&thr[0].sem, 0, 0);
	sched_step = sched_switches = 0;
	sched_active = 1;
}
void sched_finish(void)
{
	if (!sched_active) return;
	block2(S_BLK_ALL, "finish");
	sched_active = 0;
}
int __wrap_pthread_create(pthread_t *t, const pthread_attr_t *attr, void *(*fn)(void *), void *arg)
{
	if (!sched_active || my_slot < 0) return __real_pthread_create(t, attr, fn, arg);
	if (nthr >= SCHED_MAXT) return EAGAIN;
	if (sched_fail_next_create) { sched_fail_next_create = 0; return EAGAIN; }     /* injected: the system is out of threads */
	int s = nthr++;
	memset(&thr[s], 0, sizeof thr[s]);
	thr[s].fn = fn; thr[s].arg = arg; thr[s].st = S_NEW; sem_init(&thr[s].sem, 0, 0);
	int r = __real_pthread_create(&thr[s].tid, attr, tramp, (void *)(intptr_t)s);
	if (r) { thr[s].st = S_FINISHED; return r; }
	*t = thr[s].tid;
	thr[s].st = S_READY;
	sched_point("pthread_create");
	return 0;
}
int sched_spawn(void *(*fn)(void *), void *arg)
{
	pthread_t t;
	int before = nthr;
	if (__wrap_pthread_create(&t, NULL, fn, arg)) return -1;
	return before;
}
int __wrap_pthread_join(pthread_t t, void **ret)
{
	int s;
	if (!sched_active || my_slot < 0 || (s = sched_slot_of(t)) < 0) return __real_pthread_join(t, ret);
	sched_point("pthread_join");
	thr[my_slot].join_target = s;
	while (thr[s].st != S_FINISHED) block2(S_BLK_JOIN, "pthread_join");
	thr[s].joins++;
	return __real_pthread_join(t, ret);
}

/* ------------------------------------------------------------------ locks */
int __wrap_pthread_mutex_lock(pthread_mutex_t *m)
{
	if (!sched_active || my_slot < 0) return __real_pthread_mutex_lock(m);
	sched_point("mutex_lock");
	int li = lock_find(m, 1);
	while (li >= 0 && locks[li].owner >= 0) { thr[my_slot].mutex = m; block2(S_BLK_MUTEX, "mutex_lock"); li = lock_find(m, 1); }
	if (li >= 0) locks[li].owner = my_slot;
	return __real_pthread_mutex_lock(m);
}
int __wrap_pthread_mutex_unlock(pthread_mutex_t *m)
{
	if (!sched_active || my_slot < 0) return __real_pthread_mutex_unlock(m);
	int r = __real_pthread_mutex_unlock(m);
	int li = lock_find(m, 0);
	if (li >= 0) locks[li].owner = -1;
	sched_point("mutex_unlock");
	return r;
}
int __wrap_pthread_mutex_destroy(pthread_mutex_t *m)
{
	if (sched_active) { int li = lock_find(m, 0); if (li >= 0) { locks[li].addr = NULL; locks[li].owner = -1; } }
	return __real_pthread_mutex_destroy(m);
}
int __wrap_pthread_spin_lock(pthread_spinlock_t *l)
{
	if (!sched_active || my_slot < 0) return __real_pthread_spin_lock(l);
	sched_point("spin_lock");
	int li = lock_find((void *)l, 1);
	while (li >= 0 && locks[li].owner >= 0) { thr[my_slot].mutex = (void *)l; block2(S_BLK_MUTEX, "spin_lock"); li = lock_find((void *)l, 1); }
	if (li >= 0) locks[li].owner = my_slot;
	return __real_pthread_spin_lock(l);
}
int __wrap_pthread_spin_unlock(pthread_spinlock_t *l)
{
	if (!sched_active || my_slot < 0) return __real_pthread_spin_unlock(l);
	if (sched_on_point) sched_on_point("spin_unlock-pre");      /* still inside the critical section (not a yield point) */
	int r = __real_pthread_spin_unlock(l);
	int li = lock_find((void *)l, 0);
	if (li >= 0) locks[li].owner = -1;
	sched_point("spin_unlock");
	return r;
}

/* ------------------------------------------------------------------ waits and descriptor I/O */
int sched_block_wait(struct vk_wait *w)
{
	if (!sched_active || my_slot < 0) return VK_SLEEP;
	thr[my_slot].wait = *w;
	block2(S_BLK_WAIT, "wait");
	return VK_RETRY;
}
void sched_io_pre(int is_write, int fd, size_t n)
{
	(void)n;
	if (is_write && (fd <= 2 || fd == vz_res_fd)) return;     /* harness output, not scenario I/O */
	if (sched_active && my_slot >= 0) sched_point(is_write ? "write" : "read");
}
void sched_io_post(int is_write, int fd, ssize_t r)
{
	(void)r;
	if (is_write && (fd <= 2 || fd == vz_res_fd)) return;
	if (sched_active && my_slot >= 0) sched_point("write-done");
}
