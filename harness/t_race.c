/*
 * t_race -- C14: free-running multi-threaded scenarios under ThreadSanitizer (no baton, real
 * blocking, short real timers).  The oracle is TSan: any report that is not on one of the
 * one-way feature-detection flags named in the property (suppressions file) is a violation.
 * The harness itself synchronises only through C11 atomics, pthread primitives and the library.
 */
#ifndef _GNU_SOURCE
#define _GNU_SOURCE
#endif
#include "vfz.h"
#include <errno.h>
#include <fcntl.h>
#include <pthread.h>
#include <signal.h>
#include <stdatomic.h>
#include <stdio.h>
#include <stdlib.h>
#include <string.h>
#include <unistd.h>
#include <sys/wait.h>
#include <time.h>
#include <iv.h>
#include <iv_event.h>
#include <iv_event_raw.h>
#include <iv_signal.h>
#include <iv_thread.h>
#include <iv_wait.h>
#include <iv_inotify.h>
#include <sys/stat.h>
#include <fcntl.h>
#include <iv_work.h>

const char *target_name = "race";

enum { L_CROSS_POST, L_RAW_CROSS_POST, L_POOL, L_CONTINUATION, L_SIGNAL_DELIVERY, L_CHILD_REAPED, L_LOOP_CHURN, L_TWO_LOOPS_CONCURRENT, L_M0, L_M1, L_M2, L_M3, L_PIPE_TRANSPORT, L_IVTHREAD, L_SAME_EVENT_TWO_POSTERS, L_CONCURRENT_FIRST_EVENT, L_INOTIFY_PER_LOOP, L_SIGNAL_INTEREST_CHURN };

static void fatal_handler(const char *msg)
{
	char p[8]; strncpy(p, vz_prop, 3); p[3] = 0;
	vz_fail(p, "fatal", "iv_fatal: %s", msg);
	_exit(3);
}

#define NEV 3
static struct iv_event main_ev[NEV]; static struct iv_event_raw main_raw;
static struct iv_event churn_ev; static int cfg_churn_ev, cfg_main_events, cfg_loop_children;
static atomic_int main_ready, posters_done, stop_all, nposters, loops_done, nloops;
static atomic_long n_cross_posts, n_raw_posts, n_items_done, n_sig, n_reaped, n_churn, n_cont;
static struct iv_work_pool pool; static int have_pool;
static void pool_thread_start(void *c) { (void)c; struct timespec ts = { 0, 200000 }; nanosleep(&ts, NULL); }
static atomic_int stop_seq;
/* the hooks of different workers take different times (6, 3, 0 ms, in the order they are entered): an earlier worker is still inside
 * its hook when a later one has long left */
static void pool_thread_stop(void *c) { (void)c; int k = 2 - atomic_fetch_add(&stop_seq, 1) % 3; struct timespec ts = { 0, 3000000 * k }; if (k) nanosleep(&ts, NULL); }
#define NIT 16
static struct iv_work_item items[NIT], conts[NIT]; static int nitems;
static struct iv_signal sigint; static int have_sig;
static struct iv_wait_interest wi[2]; static int nwi;
static struct iv_timer main_timer; static int main_ticks;
static int cfg_post_count, cfg_churn, cfg_raise;

static void churn_handler(void *c) { (void)c; }
static void ev_handler(void *c)
{
	(void)c;
	/* the owner queues one of its own events and takes it out again while other threads are posting different events of
	 * the same loop: unlinking a queued event must be ordered with their insertions */
	if (cfg_churn_ev && !atomic_load(&stop_all))
		for (int k = 0; k < 3; k++) { iv_event_post(&churn_ev); iv_event_unregister(&churn_ev); IV_EVENT_INIT(&churn_ev); churn_ev.handler = churn_handler; iv_event_register(&churn_ev); }
}
static void raw_handler(void *c) { (void)c; }
static void sig_handler(void *c) { (void)c; atomic_fetch_add(&n_sig, 1); }
static void wait_handler(void *c, int status, const struct rusage *ru)
{
	struct iv_wait_interest *w = c; (void)ru;
	if (WIFEXITED(status) || WIFSIGNALED(status)) { atomic_fetch_add(&n_reaped, 1); iv_wait_interest_unregister(w); w->cookie = NULL; }
}
static void wait_handler_ignore(void *c, int status, const struct rusage *ru) { (void)c; (void)status; (void)ru; }
static void child_fn_pause(void *c) { (void)c; for (;;) pause(); }
static void cont_work(void *c) { (void)c; }
static void cont_done(void *c) { (void)c; atomic_fetch_add(&n_items_done, 1); }
static void work_fn(void *c)
{
	int i = (int)(intptr_t)c;
	/* a continuation submitted from the worker thread: one of the documented cross-thread entry points */
	if ((i & 1) && !atomic_load(&stop_all)) { atomic_fetch_add(&n_cont, 1); iv_work_pool_submit_continuation(&pool, &conts[i]); }
}
static void work_done(void *c) { (void)c; atomic_fetch_add(&n_items_done, 1); }
#include <sys/syscall.h>
static void child_fn(void *c) { (void)c; syscall(SYS_exit_group, 0); }    /* no sanitizer finalisation in the forked child */

static void sig_unblock_here(void)
{
	/* Process-directed signals are accepted by poster threads only.  ThreadSanitizer defers asynchronous signals to a later
	 * point of the receiving thread without regard to the signal mask that thread has set by then, which would let the
	 * library's handler run inside the library's own signals-blocked critical sections (an artefact of the tool: the real
	 * kernel never does that).  Poster threads never enter those sections, so nothing is lost by routing signals to them. */
	sigset_t s; sigemptyset(&s); sigaddset(&s, SIGUSR1); sigaddset(&s, SIGCHLD); sigaddset(&s, SIGUSR2);
	pthread_sigmask(SIG_UNBLOCK, &s, NULL);
}
/* the dedicated receiver of process-directed signals: it sits in pause(), where ThreadSanitizer delivers a signal at once
 * (as the kernel does), instead of deferring it to some later interceptor of a busy thread */
static atomic_int receiver_stop;
static void wake_receiver(int s) { (void)s; }
static void *receiver_main(void *arg)
{
	(void)arg;
	sig_unblock_here();
	while (!atomic_load(&receiver_stop)) pause();
	return NULL;
}
static void *poster_main(void *arg)
{
	int id = (int)(intptr_t)arg;
	while (!atomic_load(&main_ready)) sched_yield();
	for (int k = 0; k < cfg_post_count; k++) {
		iv_event_post(&main_ev[(k + id) % NEV]); atomic_fetch_add(&n_cross_posts, 1);
		if (k % 3 == 0) { iv_event_raw_post(&main_raw); atomic_fetch_add(&n_raw_posts, 1); }
		if (cfg_raise && k % 7 == 0) kill(getpid(), SIGUSR1);
		if (k % 5 == 0) sched_yield();
	}
	atomic_fetch_add(&posters_done, 1);
	return NULL;
}

/* every loop thread watches a directory of its own through its own inotify instance: the instances are independent, events of one
 * must never show up in another (file names carry the thread id) */
static int cfg_ino; static const char *ino_base;
#define INO_FILES 24
struct lino { struct iv_inotify in; struct iv_inotify_watch w; int id, seen, bad, active; struct iv_timer guard; char dir[256]; };
static void lino_done(struct lino *l) { if (!l->active) return; l->active = 0; iv_inotify_watch_unregister(&l->w); iv_inotify_unregister(&l->in); if (iv_timer_registered(&l->guard)) iv_timer_unregister(&l->guard); }
static void lino_handler(void *c, struct inotify_event *ev)
{
	struct lino *l = c; char pre[16]; snprintf(pre, sizeof pre, "t%d-", l->id);
	if (!ev->len || strncmp(ev->name, pre, strlen(pre))) { l->bad++; vz_fail("C20", "foreign-event", "loop thread %d: its inotify watch received an event named '%s' (mask 0x%x), which belongs to another thread's instance", l->id, ev->len ? ev->name : "", ev->mask); }
	if (++l->seen >= 2 * INO_FILES) lino_done(l);
}
static void lino_guard(void *c) { struct lino *l = c; lino_done(l); }     /* events missing: give up quietly (wall-clock, so no verdict) */
static void lino_start(struct lino *l, int id, int round)
{
	memset(l, 0, sizeof *l); l->id = id;
	snprintf(l->dir, sizeof l->dir, "%s/ino%d", ino_base, id); mkdir(l->dir, 0700);
	IV_INOTIFY_INIT(&l->in);
	if (iv_inotify_register(&l->in)) return;
	IV_INOTIFY_WATCH_INIT(&l->w); l->w.inotify = &l->in; l->w.pathname = l->dir; l->w.mask = IN_CREATE | IN_DELETE; l->w.cookie = l; l->w.handler = lino_handler;
	if (iv_inotify_watch_register(&l->w)) { iv_inotify_unregister(&l->in); return; }
	l->active = 1;
	for (int k = 0; k < INO_FILES; k++) { char p[320]; snprintf(p, sizeof p, "%s/t%d-%d-%d", l->dir, id, round, k); int fd = open(p, O_CREAT | O_WRONLY, 0600); if (fd >= 0) close(fd); unlink(p); }
	IV_TIMER_INIT(&l->guard); iv_validate_now(); l->guard.expires = iv_now; l->guard.expires.tv_sec += 3; l->guard.cookie = l; l->guard.handler = lino_guard;
	iv_timer_register(&l->guard);
}

static int cfg_sig_churn;
static void sig_handler_noop(void *c) { (void)c; }
/* an independent loop in its own thread: init -> short program -> deinit, repeated */
static void loop_ev_handler(void *c) { int *cnt = c; (*cnt)++; }
static void loop_timer_cb(void *c) { struct iv_event *e = c; iv_event_unregister(e); }
static void *loop_main(void *arg)
{
	int id = (int)(intptr_t)arg;
	for (int round = 0; round < (cfg_main_events ? cfg_churn : cfg_churn * 12); round++) {
		iv_init();
		struct iv_event e; int cnt = 0; struct iv_timer t;
		IV_EVENT_INIT(&e); e.cookie = &cnt; e.handler = loop_ev_handler;
		iv_event_register(&e);
		iv_event_post(&e);
		if (cfg_main_events && atomic_load(&main_ready) && !atomic_load(&stop_all) && round % 2 == 0) { iv_event_post(&main_ev[id % NEV]); atomic_fetch_add(&n_cross_posts, 1); }
		if (cfg_sig_churn) {
			/* interests for one signal number come and go in several threads at once, restricted to the thread in some, process-wide in
			 * others (the signal itself is never sent): the shared per-signal bookkeeping and the handler installation are common to all */
			struct iv_signal ls;
			for (int q = 0; q < 2; q++) {
				IV_SIGNAL_INIT(&ls); ls.signum = SIGRTMIN + 5; ls.flags = ((id + q) & 1) ? IV_SIGNAL_FLAG_THIS_THREAD : 0; ls.cookie = NULL; ls.handler = sig_handler_noop;
				if (iv_signal_register(&ls) == 0) { if (q) sched_yield(); iv_signal_unregister(&ls); }
			}
		}
		IV_TIMER_INIT(&t); iv_validate_now(); t.expires = iv_now; t.expires.tv_nsec += 300000 * (1 + id); if (t.expires.tv_nsec >= 1000000000) { t.expires.tv_sec++; t.expires.tv_nsec -= 1000000000; }
		t.cookie = &e; t.handler = loop_timer_cb;
		iv_timer_register(&t);
		if (cfg_loop_children && round == 0) {
			/* a child of this thread's own: killed and its interest dropped at once, while another thread may be reaping it */
			struct iv_wait_interest lw;
			IV_WAIT_INTEREST_INIT(&lw); lw.cookie = NULL; lw.handler = wait_handler_ignore;
			if (iv_wait_interest_register_spawn(&lw, child_fn_pause, NULL) == 0) {
				iv_wait_interest_kill(&lw, SIGKILL);
				/* ... and asked about a few more times around the moment the (possibly other) reaping thread collects it */
				for (int q = 0; q < 4; q++) { struct timespec ts = { 0, 150000 * (1 + q) }; nanosleep(&ts, NULL); iv_wait_interest_kill(&lw, 0); }
				if (id & 1) sched_yield();
				iv_wait_interest_unregister(&lw);
			}
		}
		struct lino li; if (cfg_ino && round < 3) lino_start(&li, id, round);
		iv_main();
		iv_deinit();
		atomic_fetch_add(&n_churn, 1);
	}
	atomic_fetch_add(&loops_done, 1);
	return NULL;
}

static void main_timer_cb(void *c)
{
	(void)c;
	main_ticks++;
	int finished = atomic_load(&posters_done) >= atomic_load(&nposters) && atomic_load(&loops_done) >= atomic_load(&nloops)
		       && (!have_pool || atomic_load(&n_items_done) >= nitems + atomic_load(&n_cont)) && (!nwi || atomic_load(&n_reaped) >= nwi);
	if (finished) {     /* a raised signal that is still on its way must arrive before the interest (and the handler) goes away */
		sigset_t pend; sigpending(&pend);
		if (sigismember(&pend, SIGUSR1) || sigismember(&pend, SIGCHLD)) finished = 0;
	}
	if (finished || main_ticks > 400) {
		atomic_store(&stop_all, 1);
		/* posters are done (or we give up): nobody posts to our events any more */
		if (!finished) vz_inconclusive("race scenario did not wind down in time");
		if (cfg_main_events) for (int i = 0; i < NEV; i++) iv_event_unregister(&main_ev[i]);
		if (cfg_churn_ev) iv_event_unregister(&churn_ev);
		iv_event_raw_unregister(&main_raw);
		if (have_sig) iv_signal_unregister(&sigint);
		if (have_pool) iv_work_pool_put(&pool);
		for (int i = 0; i < nwi; i++) if (wi[i].cookie) iv_wait_interest_unregister(&wi[i]);
		return;
	}
	iv_validate_now();
	main_timer.expires = iv_now; main_timer.expires.tv_nsec += 1000000; if (main_timer.expires.tv_nsec >= 1000000000) { main_timer.expires.tv_sec++; main_timer.expires.tv_nsec -= 1000000000; }
	iv_timer_register(&main_timer);
}

static const char *excl[4] = { "", "epoll-timerfd", "epoll-timerfd epoll", "epoll-timerfd epoll ppoll" };

void target_run(void)
{
	int method = ch_n(4);
	setenv("IV_EXCLUDE_POLL_METHOD", excl[method], 1);
	vz_label(L_M0 + method);
	int np = ch_n(4), nl = ch_n(3);
	if (np + nl == 0) np = 1;
	cfg_post_count = 5 + ch_n(60); cfg_churn = 1 + ch_n(4); cfg_raise = ch_n(2);
	have_pool = ch_n(2); have_sig = cfg_raise || ch_n(2); nwi = ch_n(3); nitems = have_pool ? 1 + ch_n(NIT - 1) : 0;
	if (vz_param_l("nochild", 0)) nwi = 0;
	if (vz_param_l("noraise", 0)) cfg_raise = 0;
	/* (signals go to the receiver thread) */     /* somebody has to receive SIGCHLD / SIGUSR1 */
	int concurrent_first = ch_n(2);     /* loops start before the main loop has registered its first event */
	cfg_churn_ev = ch_n(2); cfg_main_events = ch_n(4) != 0; cfg_loop_children = ch_n(3) == 0;
	cfg_sig_churn = ch_n(3) == 0;
	if (cfg_sig_churn) { if (nl < 2) nl = 2; vz_label(L_SIGNAL_INTEREST_CHURN); }
	cfg_ino = vz_param_l("ino", -1) >= 0 ? (int)vz_param_l("ino", 0) : ch_n(4) == 0;
	if (cfg_ino) { static char ino_dir[200]; if (nl < 2) nl = 2; snprintf(ino_dir, sizeof ino_dir, "%s", vz_scratch_dir()); ino_base = ino_dir; vz_label(L_INOTIFY_PER_LOOP); }     /* (a private copy: the driver clears its own when it gives a case up) */
	if (!cfg_main_events) { np = 0; cfg_churn_ev = 0; have_pool = 0; nitems = 0; nwi = 0; if (nl < 2) nl = 2; }     /* variant: only the loop threads hold events, so the process-wide kick descriptor comes and goes */
	atomic_store(&nposters, np); atomic_store(&nloops, nl);
	vz_hash_u(method * 1000 + np * 100 + nl * 10 + have_pool); vz_hash_u(cfg_post_count * 16 + cfg_churn * 4 + nwi); vz_hash_u(nitems * 4 + cfg_raise * 2 + concurrent_first);
	vz_log("config: method=%d posters=%d loops=%d(churn %d) posts=%d pool=%d(items %d) signal=%d children=%d", method, np, nl, cfg_churn, cfg_post_count, have_pool, nitems, have_sig, nwi);
	iv_set_fatal_msg_handler(fatal_handler);
	signal(SIGPIPE, SIG_IGN);
	{ sigset_t s; sigemptyset(&s); sigaddset(&s, SIGUSR1); sigaddset(&s, SIGCHLD); sigaddset(&s, SIGUSR2); pthread_sigmask(SIG_BLOCK, &s, NULL); }   /* inherited by every thread; only the receiver thread unblocks */
	iv_init();                                   /* the first iv_init completes before any other thread uses the library */
	pthread_t pt[8], lt[4], rt;
	{ struct sigaction sa; memset(&sa, 0, sizeof sa); sa.sa_handler = wake_receiver; sigaction(SIGUSR2, &sa, NULL); }
	pthread_create(&rt, NULL, receiver_main, NULL);
	if (concurrent_first) { for (int i = 0; i < nl; i++) pthread_create(&lt[i], NULL, loop_main, (void *)(intptr_t)i); vz_label(L_CONCURRENT_FIRST_EVENT); }
	if (cfg_main_events) for (int i = 0; i < NEV; i++) { IV_EVENT_INIT(&main_ev[i]); main_ev[i].handler = ev_handler; iv_event_register(&main_ev[i]); }
	if (cfg_churn_ev) { IV_EVENT_INIT(&churn_ev); churn_ev.handler = churn_handler; iv_event_register(&churn_ev); }
	IV_EVENT_RAW_INIT(&main_raw); main_raw.handler = raw_handler; iv_event_raw_register(&main_raw);
	if (have_sig) { IV_SIGNAL_INIT(&sigint); sigint.signum = SIGUSR1; sigint.flags = 0; sigint.handler = sig_handler; iv_signal_register(&sigint); }
	for (int i = 0; i < nwi; i++) { IV_WAIT_INTEREST_INIT(&wi[i]); wi[i].cookie = &wi[i]; wi[i].handler = wait_handler; if (iv_wait_interest_register_spawn(&wi[i], child_fn, NULL) < 0) { wi[i].cookie = NULL; nwi = i; break; } }
	if (have_pool) {
		IV_WORK_POOL_INIT(&pool); pool.max_threads = 1 + ch_n(3); pool.cookie = NULL;
		if (ch_n(2)) { pool.thread_start = pool_thread_start; pool.thread_stop = pool_thread_stop; }     /* user hooks that take a moment: the pool must stay intact around them */
		iv_work_pool_create(&pool);
		for (int i = 0; i < nitems; i++) {
			IV_WORK_ITEM_INIT(&items[i]); items[i].cookie = (void *)(intptr_t)i; items[i].work = work_fn; items[i].completion = work_done;
			IV_WORK_ITEM_INIT(&conts[i]); conts[i].cookie = NULL; conts[i].work = cont_work; conts[i].completion = cont_done;
			iv_work_pool_submit_work(&pool, &items[i]);
		}
		vz_label(L_POOL);
	}
	IV_TIMER_INIT(&main_timer); iv_validate_now(); main_timer.expires = iv_now; main_timer.handler = main_timer_cb;
	iv_timer_register(&main_timer);
	atomic_store(&main_ready, 1);
	for (int i = 0; i < np; i++) pthread_create(&pt[i], NULL, poster_main, (void *)(intptr_t)i);
	if (!concurrent_first) for (int i = 0; i < nl; i++) pthread_create(&lt[i], NULL, loop_main, (void *)(intptr_t)i);
	iv_main();
	for (int i = 0; i < np; i++) pthread_join(pt[i], NULL);
	for (int i = 0; i < nl; i++) pthread_join(lt[i], NULL);
	atomic_store(&receiver_stop, 1);
	for (int k = 0; k < 2000; k++) { pthread_kill(rt, SIGUSR2); struct timespec ts = { 0, 200000 }; if (pthread_timedjoin_np(rt, NULL, &(struct timespec){ time(NULL) + 1, 0 }) == 0) break; nanosleep(&ts, NULL); }
	iv_deinit();
	if (atomic_load(&n_cross_posts)) vz_label(L_CROSS_POST);
	if (atomic_load(&n_raw_posts)) vz_label(L_RAW_CROSS_POST);
	if (atomic_load(&n_cont)) vz_label(L_CONTINUATION);
	if (atomic_load(&n_sig)) vz_label(L_SIGNAL_DELIVERY);
	if (atomic_load(&n_reaped)) vz_label(L_CHILD_REAPED);
	if (atomic_load(&n_churn) > 1) vz_label(L_LOOP_CHURN);
	if (nl >= 2) vz_label(L_TWO_LOOPS_CONCURRENT);
	if (np >= 2) vz_label(L_SAME_EVENT_TWO_POSTERS);
	vz_count(0, atomic_load(&n_cross_posts)); vz_count(1, atomic_load(&n_items_done)); vz_count(2, atomic_load(&n_sig)); vz_count(3, atomic_load(&n_reaped)); vz_count(4, atomic_load(&n_churn));
	if (np + nl >= 2 || (np + nl >= 1 && (have_pool || nwi))) vz_nontrivial();
}

size_t target_gen(uint64_t seed, uint64_t index, uint8_t *buf, size_t cap)
{
	struct vz_rng r; rng_seed(&r, seed, index);
	size_t n = 64;      /* target_run draws about 25 choices; none of them may fall off the end of the string (that reads as 0) */
	for (size_t i = 0; i < n && i < cap; i++) buf[i] = (uint8_t)rng_next(&r);
	return n;
}
