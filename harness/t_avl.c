/*
 * t_avl -- C16: the AVL tree against a reference ordered set with a full structural walk after
 * every operation.  mode=rand: byte-driven mixed histories; mode=exh: every AVL shape of a given
 * height x every insert gap / duplicate / deletable node.
 */
#ifndef _GNU_SOURCE
#define _GNU_SOURCE
#endif
#include "vfz.h"
#include <stdio.h>
#include <stdlib.h>
#include <string.h>
#include <iv_avl.h>

const char *target_name = "avl";

enum { L_ROT_L, L_ROT_R, L_ROT_LR, L_ROT_RL, L_DEL_LEAF, L_DEL_ONE_CHILD, L_DEL_TWO_LEFT_VICTIM, L_DEL_TWO_RIGHT_VICTIM,
       L_DUP_INSERT, L_MULTI_REBALANCE, L_EMPTY_AGAIN, L_WALK, L_DEL_ROOT, L_HEIGHT_GE5, L_CMP_DIFFERENCE, L_FOR_EACH_SAFE_DELETE };

#define MAXK 512
struct knode { struct iv_avl_node an; int key; };
static struct knode *node_of[MAXK];       /* live node for key, NULL if absent */
static struct iv_avl_tree tree;
static long ops_done;

/* the comparator follows the usual C contract (negative / zero / positive, as qsort and strcmp do): cmp_scale 0 gives exactly
 * -1/0/1, otherwise the key difference times cmp_scale */
static int cmp_scale;
static int cmp(const struct iv_avl_node *a, const struct iv_avl_node *b)
{
	int ka = ((const struct knode *)a)->key, kb = ((const struct knode *)b)->key;   /* an is the first member */
	if (cmp_scale) return (ka - kb) * cmp_scale;
	return ka < kb ? -1 : ka > kb ? 1 : 0;
}

#define FAIL(tag, ...) vz_fail("C16", tag, __VA_ARGS__)

/* ------------------------------------------------------------------ full check */
static int walk_count;
static int walk(struct iv_avl_node *n, struct iv_avl_node *parent, int lo, int hi, const char *ctx)
{
	if (!n) return 0;
	struct knode *k = (struct knode *)n;
	if (++walk_count > MAXK + 2) FAIL("cycle", "%s: walk does not terminate", ctx);
	if (n->parent != parent) FAIL("parent-link", "%s: node %d has a wrong parent pointer", ctx, k->key);
	if (k->key <= lo || k->key >= hi) FAIL("bst-order", "%s: node %d outside (%d,%d)", ctx, k->key, lo, hi);
	if (k->key < 0 || k->key >= MAXK || node_of[k->key] != k) FAIL("foreign-node", "%s: node %d in the tree is not in the model", ctx, k->key);
	int hl = walk(n->left, n, lo, k->key, ctx), hr = walk(n->right, n, k->key, hi, ctx);
	int h = 1 + (hl > hr ? hl : hr);
	if (n->height != h) FAIL("height-field", "%s: node %d records height %d, real height %d", ctx, k->key, n->height, h);
	if (hl - hr > 1 || hr - hl > 1) FAIL("unbalanced", "%s: node %d has subtree heights %d/%d", ctx, k->key, hl, hr);
	return h;
}
static void check_all(const char *ctx)
{
	walk_count = 0;
	int h = walk(tree.root, NULL, -1, MAXK, ctx);
	int expect = 0;
	for (int k = 0; k < MAXK; k++) expect += node_of[k] != NULL;
	if (walk_count != expect) FAIL("node-set", "%s: tree holds %d nodes, model %d", ctx, walk_count, expect);
	if (h >= 5) vz_label(L_HEIGHT_GE5);
	/* forward */
	struct iv_avl_node *n = iv_avl_tree_min(&tree);
	int cnt = 0;
	for (int k = 0; k < MAXK; k++) {
		if (!node_of[k]) continue;
		if (!n || ((struct knode *)n)->key != k) FAIL("forward-traversal", "%s: forward traversal yields %d where %d is expected", ctx, n ? ((struct knode *)n)->key : -1, k);
		n = iv_avl_tree_next(n);
		if (++cnt > expect + 1) break;
	}
	if (n) FAIL("forward-traversal", "%s: forward traversal does not end", ctx);
	n = iv_avl_tree_max(&tree);
	for (int k = MAXK - 1; k >= 0; k--) {
		if (!node_of[k]) continue;
		if (!n || ((struct knode *)n)->key != k) FAIL("backward-traversal", "%s: backward traversal yields %d where %d is expected", ctx, n ? ((struct knode *)n)->key : -1, k);
		n = iv_avl_tree_prev(n);
	}
	if (n) FAIL("backward-traversal", "%s: backward traversal does not end", ctx);
	if ((expect == 0) != !!iv_avl_tree_empty(&tree)) FAIL("empty", "%s: iv_avl_tree_empty disagrees with the model", ctx);
}

/* ------------------------------------------------------------------ structural snapshot (rotation classification, bit-identity) */
struct snap { short left[MAXK], right[MAXK], parent[MAXK]; unsigned char height[MAXK]; short root; };
static int keyof(struct iv_avl_node *n) { return n ? ((struct knode *)n)->key : -1; }
static void take_snap(struct snap *s)
{
	for (int k = 0; k < MAXK; k++) {
		if (!node_of[k]) { s->left[k] = s->right[k] = s->parent[k] = -2; s->height[k] = 0; continue; }
		struct iv_avl_node *n = &node_of[k]->an;
		s->left[k] = keyof(n->left); s->right[k] = keyof(n->right); s->parent[k] = keyof(n->parent); s->height[k] = n->height;
	}
	s->root = keyof(tree.root);
}
static void classify(const struct snap *b, const struct snap *a, int skip)
{
	int changed = 0;
	for (int k = 0; k < MAXK; k++) {
		if (k == skip || b->parent[k] == -2 || a->parent[k] == -2) continue;
		if (b->parent[k] == a->parent[k]) continue;
		changed++;
		int p = b->parent[k];
		if (p >= 0 && p != skip && a->parent[p] == k) {          /* k rose above its old parent p */
			int gp = b->parent[p];
			int dbl = gp >= 0 && gp != skip && a->parent[gp] == k; /* ... and above its old grandparent */
			if (dbl) vz_label(b->right[p] == k ? L_ROT_LR : L_ROT_RL);
			else if (!(b->parent[k] >= 0 && 0)) vz_label(b->right[p] == k ? L_ROT_L : L_ROT_R);
		}
	}
	if (changed > 6) vz_label(L_MULTI_REBALANCE);
}

/* ------------------------------------------------------------------ operations */
static struct snap sb, sa;
static void op_insert(int key, int use_malloc, struct knode *pool)
{
	char ctx[64]; snprintf(ctx, sizeof ctx, "after insert(%d)", key);
	if (node_of[key] && (ops_done & 1)) {
		/* the key is present and the node handed in is the very node that is in the tree: must fail and change nothing, too */
		take_snap(&sb);
		int r0 = iv_avl_tree_insert(&tree, &node_of[key]->an);
		ops_done++;
		vz_label(L_DUP_INSERT);
		if (r0 != -1) FAIL("duplicate-accepted", "re-insert of the node that holds key %d returned %d", key, r0);
		take_snap(&sa);
		if (memcmp(&sb, &sa, sizeof sb)) FAIL("duplicate-changed-tree", "failed re-insert of the in-tree node with key %d modified the tree", key);
		check_all(ctx);
		return;
	}
	struct knode *k = use_malloc ? malloc(sizeof *k) : pool;
	memset(k, 0xA5, sizeof *k);
	k->key = key;
	take_snap(&sb);
	int r = iv_avl_tree_insert(&tree, &k->an);
	ops_done++;
	if (node_of[key]) {
		vz_label(L_DUP_INSERT);
		if (r != -1) FAIL("duplicate-accepted", "insert of already present key %d returned %d", key, r);
		take_snap(&sa);
		if (memcmp(&sb, &sa, sizeof sb)) FAIL("duplicate-changed-tree", "failed insert of duplicate key %d modified the tree", key);
		if (use_malloc) free(k);
	} else {
		if (r != 0) FAIL("insert-refused", "insert of new key %d returned %d", key, r);
		node_of[key] = k;
		take_snap(&sa);
		classify(&sb, &sa, key);
	}
	check_all(ctx);
}
static void op_delete(int key, int use_malloc)
{
	char ctx[64]; snprintf(ctx, sizeof ctx, "after delete(%d)", key);
	struct knode *k = node_of[key];
	struct iv_avl_node *n = &k->an;
	if (!n->left && !n->right) vz_label(L_DEL_LEAF);
	else if (!n->left || !n->right) vz_label(L_DEL_ONE_CHILD);
	else vz_label((n->left->height > n->right->height) ? L_DEL_TWO_LEFT_VICTIM : L_DEL_TWO_RIGHT_VICTIM);
	if (tree.root == n) vz_label(L_DEL_ROOT);
	take_snap(&sb);
	iv_avl_tree_delete(&tree, n);
	ops_done++;
	node_of[key] = NULL;
	if (use_malloc) { memset(k, 0x5A, sizeof *k); free(k); }
	take_snap(&sa);
	classify(&sb, &sa, key);
	check_all(ctx);
	if (!tree.root) vz_label(L_EMPTY_AGAIN);
}

/* ------------------------------------------------------------------ exhaustive enumeration */
static unsigned long long nshape[8];
static struct knode pool[80];
static int pool_n, next_key;
static struct iv_avl_node *build(int h, unsigned long long idx, struct iv_avl_node *parent)
{
	if (h == 0) return NULL;
	unsigned long long a = nshape[h - 1], b = h >= 2 ? nshape[h - 2] : 0;
	int hl, hr; unsigned long long li, ri;
	if (idx < a * a) { hl = hr = h - 1; li = idx / a; ri = idx % a; }
	else if ((idx -= a * a) < a * b) { hl = h - 1; hr = h - 2; li = idx / b; ri = idx % b; }
	else { idx -= a * b; hl = h - 2; hr = h - 1; li = idx / a; ri = idx % a; }
	struct knode *k = &pool[pool_n++];
	k->an.parent = parent; k->an.height = h;
	k->an.left = build(hl, li, &k->an);
	k->key = next_key; next_key += 2; node_of[k->key] = k;
	k->an.right = build(hr, ri, &k->an);
	return &k->an;
}
static void rebuild(int h, unsigned long long idx)
{
	memset(node_of, 0, sizeof node_of);
	pool_n = 0; next_key = 2;
	INIT_IV_AVL_TREE(&tree, cmp);
	tree.root = build(h, idx, NULL);
}
static void run_exhaustive(void)
{
	int H = vz_param_l("height", 3);
	long part = vz_param_l("part", 0), parts = vz_param_l("parts", 1), sample = vz_param_l("sample", 0);
	nshape[0] = 1; nshape[1] = 1;
	for (int h = 2; h < 8; h++) nshape[h] = nshape[h - 1] * nshape[h - 1] + 2 * nshape[h - 1] * nshape[h - 2];
	long shapes = 0;
	for (int h = (sample ? H : 0); h <= H; h++) {
		unsigned long long step = 1;
		if (sample && nshape[h] > (unsigned long long)sample) step = nshape[h] / sample;
		for (unsigned long long idx = part * step; idx < nshape[h]; idx += parts * step) {
			rebuild(h, idx);
			int n = pool_n;
			if (shapes < 3) check_all("freshly built shape");   /* the builder itself must produce valid trees */
			shapes++;
			static struct knode extra;
			for (int key = 1; key <= 2 * n + 1; key++) {     /* every gap (odd) and every duplicate (even) */
				rebuild(h, idx);
				op_insert(key, 0, &extra);
			}
			for (int key = 2; key <= 2 * n; key += 2) {      /* every node */
				rebuild(h, idx);
				op_delete(key, 0);
			}
		}
	}
	vz_count(0, ops_done); vz_count(1, shapes);
	vz_log("exhaustive: height<=%d part %ld/%ld: %ld shapes, %ld checked operations", H, part, parts, shapes, ops_done);
	vz_nontrivial();
}

/* ------------------------------------------------------------------ random histories */
static void run_random(void)
{
	INIT_IV_AVL_TREE(&tree, cmp);
	int range = (int[]){ 8, 24, 64, 200, MAXK - 1 }[ch_n(5)];
	int present = 0;
	cmp_scale = (int[]){ 0, 0, 1, 2, 1000, 1000000 }[ch_n(6)];
	if (cmp_scale) vz_label(L_CMP_DIFFERENCE);
	vz_log("history over keys [0,%d):", range);
	vz_hash_u(range);
	while (!ch_exhausted() && ops_done < 6000) {
		unsigned op = ch_n(9);
		int key = ch_n(range);
		if (op == 8) {
			/* traversal with the iterator macros; the _safe one with a body that deletes (and frees) the node it stands on */
			int mod = 1 + ch_n(5), rem = ch_n(mod), del = ch_n(2);
			struct iv_avl_node *an, *an2;
			int last = -1, seen = 0;
			if (ops_done < 200) vz_log(" for_each%s (key %% %d == %d)", del ? "_safe deleting" : "", mod, rem);
			vz_hash_u(0x10000 + mod * 16 + rem * 2 + del);
			if (!del) {
				iv_avl_tree_for_each (an, &tree) { int k = ((struct knode *)an)->key; if (k <= last) FAIL("for-each-order", "iv_avl_tree_for_each visits %d after %d", k, last); last = k; if (++seen > present) break; }
				if (seen != present) FAIL("for-each-count", "iv_avl_tree_for_each visited %d of %d nodes", seen, present);
			} else {
				int expect = present;
				iv_avl_tree_for_each_safe (an, an2, &tree) {
					int k = ((struct knode *)an)->key;
					if (k <= last) FAIL("for-each-safe-order", "iv_avl_tree_for_each_safe visits %d after %d", k, last);
					last = k; if (++seen > expect) break;
					if (k % mod == rem) { op_delete(k, 1); present--; vz_label(L_FOR_EACH_SAFE_DELETE); }
				}
				if (seen != expect) FAIL("for-each-safe-count", "iv_avl_tree_for_each_safe with a deleting body visited %d of %d nodes", seen, expect);
			}
			continue;
		}
		if (op <= 3) {
			if (!node_of[key]) present++;
			if (ops_done < 200) vz_log(" insert %d%s", key, node_of[key] ? " (duplicate)" : "");
			vz_hash_u(key * 2);
			op_insert(key, 1, NULL);
		} else if (op <= 6) {
			/* delete the nearest present key at or above `key` (wrap) */
			if (!present) continue;
			int k = key;
			while (!node_of[k]) k = (k + 1) % range;
			if (ops_done < 200) vz_log(" delete %d", k);
			vz_hash_u(k * 2 + 1);
			op_delete(k, 1); present--;
		} else {
			if (!present) continue;
			int k = key;
			while (!node_of[k]) k = (k + 1) % range;
			/* next/prev from a random node against the model */
			struct iv_avl_node *nx = iv_avl_tree_next(&node_of[k]->an), *pv = iv_avl_tree_prev(&node_of[k]->an);
			int en = -1, ep = -1;
			for (int j = k + 1; j < MAXK; j++) if (node_of[j]) { en = j; break; }
			for (int j = k - 1; j >= 0; j--) if (node_of[j]) { ep = j; break; }
			if (keyof(nx) != en) FAIL("next", "iv_avl_tree_next(%d) = %d, expected %d", k, keyof(nx), en);
			if (keyof(pv) != ep) FAIL("prev", "iv_avl_tree_prev(%d) = %d, expected %d", k, keyof(pv), ep);
			vz_label(L_WALK);
		}
	}
	/* drain */
	for (int k = 0; k < MAXK; k++) if (node_of[k] && (k & 1)) op_delete(k, 1);
	for (int k = MAXK - 1; k >= 0; k--) if (node_of[k]) op_delete(k, 1);
	vz_count(0, ops_done);
	if (vz_has_label(L_ROT_L) && vz_has_label(L_ROT_R) && vz_has_label(L_ROT_LR) && vz_has_label(L_ROT_RL) &&
	    vz_has_label(L_DEL_TWO_LEFT_VICTIM) && vz_has_label(L_DEL_TWO_RIGHT_VICTIM) && vz_has_label(L_DUP_INSERT))
		vz_nontrivial();
}

/* ------------------------------------------------------------------ large populations (heights far beyond the exhaustive range) */
static struct knode *big_nodes; static unsigned char *big_present; static long big_n;
static long big_walk(struct iv_avl_node *n, struct iv_avl_node *parent, long lo, long hi, long *count)
{
	if (!n) return 0;
	struct knode *k = (struct knode *)n;
	if (n->parent != parent) FAIL("parent-link", "large tree: node %d has a wrong parent pointer", k->key);
	if (k->key <= lo || k->key >= hi) FAIL("bst-order", "large tree: node %d outside (%ld,%ld)", k->key, lo, hi);
	if (k->key < 0 || k->key >= big_n || !big_present[k->key]) FAIL("foreign-node", "large tree: node %d is not in the model", k->key);
	if (++*count > big_n + 1) FAIL("cycle", "large tree: walk does not terminate");
	long hl = big_walk(n->left, n, lo, k->key, count), hr = big_walk(n->right, n, k->key, hi, count);
	long h = 1 + (hl > hr ? hl : hr);
	if (n->height != h) FAIL("height-field", "large tree: node %d records height %d, real height %ld", k->key, n->height, h);
	if (hl - hr > 1 || hr - hl > 1) FAIL("unbalanced", "large tree: node %d has subtree heights %ld/%ld", k->key, hl, hr);
	return h;
}
static long big_check(const char *ctx)
{
	long count = 0, expect = 0;
	long h = big_walk(tree.root, NULL, -1, big_n, &count);
	for (long k = 0; k < big_n; k++) expect += big_present[k];
	if (count != expect) FAIL("node-set", "%s: large tree holds %ld nodes, model %ld", ctx, count, expect);
	long c2 = 0; int last = -1;
	for (struct iv_avl_node *n = iv_avl_tree_min(&tree); n; n = iv_avl_tree_next(n)) { int key = ((struct knode *)n)->key; if (key <= last) FAIL("forward-traversal", "%s: forward traversal not increasing at %d", ctx, key); last = key; if (++c2 > expect) break; }
	if (c2 != expect) FAIL("forward-traversal", "%s: forward traversal visits %ld of %ld nodes", ctx, c2, expect);
	c2 = 0; last = big_n;
	for (struct iv_avl_node *n = iv_avl_tree_max(&tree); n; n = iv_avl_tree_prev(n)) { int key = ((struct knode *)n)->key; if (key >= last) FAIL("backward-traversal", "%s: backward traversal not decreasing at %d", ctx, key); last = key; if (++c2 > expect) break; }
	if (c2 != expect) FAIL("backward-traversal", "%s: backward traversal visits %ld of %ld nodes", ctx, c2, expect);
	return h;
}
static void run_big(void)
{
	big_n = 20000 + ch_n(4) * 15000;
	big_nodes = calloc(big_n, sizeof *big_nodes); big_present = calloc(big_n, 1);
	INIT_IV_AVL_TREE(&tree, cmp);
	int pattern = ch_n(4);      /* 0 ascending, 1 descending, 2 pseudo-random, 3 ascending then delete every other, then random refill */
	unsigned long x = 88172645463325252ull ^ ch_byte();
	long maxh = 0;
	vz_hash_u(big_n * 4 + pattern);
	for (long i = 0; i < big_n; i++) {
		long key = pattern == 0 || pattern == 3 ? i : pattern == 1 ? big_n - 1 - i : (long)((x = x * 6364136223846793005ull + 1442695040888963407ull) >> 33) % big_n;
		struct knode *k = &big_nodes[key];
		k->key = key;
		int r = iv_avl_tree_insert(&tree, &k->an);
		if (big_present[key]) { if (r != -1) FAIL("duplicate-accepted", "large tree: duplicate insert of %ld returned %d", key, r); }
		else { if (r) FAIL("insert-refused", "large tree: insert of %ld returned %d", key, r); big_present[key] = 1; }
		ops_done++;
		if ((i & 4095) == 4095) { long h = big_check("during inserts"); if (h > maxh) maxh = h; }
	}
	if (pattern == 3) {
		for (long key = 0; key < big_n; key += 2) if (big_present[key]) { iv_avl_tree_delete(&tree, &big_nodes[key].an); big_present[key] = 0; ops_done++; if ((key & 8191) == 0) big_check("during deletes"); }
		for (long i = 0; i < big_n / 2; i++) { long key = (long)((x = x * 6364136223846793005ull + 1442695040888963407ull) >> 33) % big_n; if (!big_present[key]) { big_nodes[key].key = key; if (iv_avl_tree_insert(&tree, &big_nodes[key].an)) FAIL("insert-refused", "large tree: re-insert refused"); big_present[key] = 1; ops_done++; } }
	}
	long h = big_check("at the end"); if (h > maxh) maxh = h;
	vz_log("large tree: %ld keys, pattern %d, height %ld, %ld operations", big_n, pattern, maxh, ops_done);
	if (maxh >= 16) vz_label(L_HEIGHT_GE5);
	vz_count(0, ops_done); vz_count(2, maxh);
	vz_nontrivial();
}

void target_run(void)
{
	if (!strcmp(vz_param("mode", "rand"), "big")) { run_big(); return; }
	if (!strcmp(vz_param("mode", "rand"), "exh")) run_exhaustive();
	else run_random();
}

size_t target_gen(uint64_t seed, uint64_t index, uint8_t *buf, size_t cap)
{
	struct vz_rng r; rng_seed(&r, seed, index);
	long big = vz_param_l("big", 0);
	size_t len = 8 + rng_n(&r, big ? 12000 : 1200);
	if (len > cap) len = cap;
	for (size_t i = 0; i < len; i++) buf[i] = (uint8_t)rng_next(&r);
	return len;
}
