/* A child without a wait interest terminates while some other interest is registered:
 * iv_wait_got_sigchld() dereferences the NULL lookup result (src/iv_wait.c). */
#include <stdio.h>
#include <stdlib.h>
#include <signal.h>
#include <unistd.h>
#include <sys/wait.h>
#include <iv.h>
#include <iv_wait.h>
static struct iv_wait_interest wi; static struct iv_timer t;
static void wh(void *c, int st, const struct rusage *ru) { if (WIFEXITED(st) || WIFSIGNALED(st)) { iv_wait_interest_unregister(&wi); } }
static void child(void *c) { pause(); _exit(0); }
static void th(void *c) { iv_wait_interest_kill(&wi, SIGKILL); }
int main(void) {
	iv_init();
	IV_WAIT_INTEREST_INIT(&wi); wi.handler = wh;
	iv_wait_interest_register_spawn(&wi, child, NULL);
	if (fork() == 0) _exit(0);          /* the stranger: exits at once, nobody registered an interest */
	IV_TIMER_INIT(&t); iv_validate_now(); t.expires = iv_now; t.expires.tv_sec += 1; t.handler = th; iv_timer_register(&t);
	iv_main();
	printf("ok\n");
	return 0;
}
