/* iv_inotify_register() never initialises ->term; iv_inotify_unregister() of a heap-allocated
 * (non-zeroed) instance that has not yet seen an event stores NULL through the garbage pointer. */
#include <stdio.h>
#include <stdlib.h>
#include <string.h>
#include <iv.h>
#include <iv_inotify.h>
int main(void) {
	iv_init();
	struct iv_inotify *in = malloc(sizeof *in);
	memset(in, 0xA5, sizeof *in);        /* what a recycled heap block looks like */
	IV_INOTIFY_INIT(in);
	if (iv_inotify_register(in)) { perror("inotify"); return 0; }
	iv_inotify_unregister(in);           /* wild store through in->term == 0xa5a5a5a5a5a5a5a5 */
	free(in);
	iv_deinit();
	printf("ok\n");
	return 0;
}
