#include <stdio.h>
#include <stddef.h>
#include <stdlib.h>
#include <errno.h>
#include <sys/prctl.h>
#include <sys/resource.h>
#include <sys/syscall.h>
#include <linux/seccomp.h>
#include <linux/filter.h>
#include <linux/audit.h>
#include <iv.h>
#include <iv_event.h>
static struct iv_event ev; static struct iv_timer t;
static void evh(void *c) {}
static void th(void *c) { iv_event_unregister(&ev); }
static void deny_eventfd(void) {
	struct sock_filter f[] = {
		BPF_STMT(BPF_LD|BPF_W|BPF_ABS, offsetof(struct seccomp_data, nr)),
		BPF_JUMP(BPF_JMP|BPF_JEQ|BPF_K, __NR_eventfd2, 2, 0),
		BPF_JUMP(BPF_JMP|BPF_JEQ|BPF_K, __NR_eventfd, 1, 0),
		BPF_STMT(BPF_RET|BPF_K, SECCOMP_RET_ALLOW),
		BPF_STMT(BPF_RET|BPF_K, SECCOMP_RET_ERRNO|ENOSYS),
	};
	struct sock_fprog p = { sizeof f/sizeof f[0], f };
	prctl(PR_SET_NO_NEW_PRIVS, 1, 0, 0, 0);
	if (prctl(PR_SET_SECCOMP, SECCOMP_MODE_FILTER, &p)) perror("seccomp");
}
int main(int argc, char **argv) {
	if (argc > 1) deny_eventfd();
	iv_init();
	IV_EVENT_INIT(&ev); ev.handler = evh; iv_event_register(&ev);
	IV_TIMER_INIT(&t); iv_validate_now(); t.expires = iv_now; t.expires.tv_nsec += 300000000; if (t.expires.tv_nsec >= 1000000000) { t.expires.tv_sec++; t.expires.tv_nsec -= 1000000000; }
	t.handler = th; iv_timer_register(&t);
	iv_main();
	struct rusage ru; getrusage(RUSAGE_SELF, &ru);
	long ms = ru.ru_utime.tv_sec*1000 + ru.ru_utime.tv_usec/1000 + ru.ru_stime.tv_sec*1000 + ru.ru_stime.tv_usec/1000;
	printf("method=%s cpu=%ld ms for a 300 ms idle wait\n", iv_poll_method_name(), ms);
	return ms > 150;
}
