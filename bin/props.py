"""Per-property check specifications and the generic check runner."""
import json, os, sys, time, glob, re, hashlib, shutil
import vlib
from vlib import VERIF

LOOP_LABELS = ["unreg_due_victim_in_callback", "unreg_self_in_callback", "handler_set_on_ready_fd", "condition_arose_while_blocked",
               "ready_then_not_ready", "struct_reuse_while_ready", "timerfd_armed", "timerfd_rearmed_or_cleared", "past_or_zero_expiry",
               "timer_rearm_from_handler", "task_rereg_same_round_with_other_work_due", "zero_deadline_kernel_timer", "quit", "failed_registration",
               "zero_objects_via_callback", "ended_legitimately_blocked", "eintr_injected", "second_iv_main_round", "event_posted", "raw_posted",
               "three_or_more_callbacks_in_one_iteration", "budget_cleanup", "epoll_pwait2_fallback", "task_self_rereg", "handlerless_fd",
               "equal_expiry", "unreg_pending_timer_in_callback", "level_triggered_repeat", "method_epoll_timerfd", "method_epoll", "method_ppoll",
               "method_poll", "free_in_oneshot_handler", "event_register_failure", "raw_post_inside_own_handler", "far_timer_clamp",
               "timerfd_enosys_fallback", "ppoll_enosys_fallback"]

# Each campaign: target, params, quick count, thorough count
PROPS = {
    "C01": dict(
        level="exploration", labels=LOOP_LABELS,
        campaigns=[("loop", ["profile=all"], 100000, 2000000), ("loop", ["profile=all", "big=1"], 30000, 600000),
                   ("loop", ["profile=fd"], 20000, 400000)],
        rule="cases = online-decoded loop programs (register/unregister/set-handler/post from setup and callbacks over fds, timers, tasks, events, raw events; 4 poll methods; malloc/free-at-unregister or slot-reuse allocation) from seeded PRNG bytes; non-trivial = the case executed, inside a callback, an unregister of an object that was due in that iteration and not yet dispatched, or of the running object itself; distinct = distinct hash of the executed action sequence + configuration",
        assumptions=["objects are freed/poisoned by the harness at the instant unregister returns; stale accesses are visible through AddressSanitizer or through a stale cookie cell",
                     "signal/wait/inotify object kinds are exercised by the C10/C11/C20 targets, which apply the same rule"],
    ),
    "C02": dict(
        level="exploration", labels=LOOP_LABELS,
        campaigns=[("loop", ["profile=fd"], 100000, 2000000), ("loop", ["profile=fd", "big=1"], 30000, 600000), ("loop", ["profile=all"], 20000, 400000)],
        rule="cases = fd-centred loop programs (handlers cleared/re-set, interest changes, peer traffic/close from callbacks and while blocked) from seeded PRNG bytes; ground truth = poll(2) on every registered harness descriptor at every wait; non-trivial = a handler went NULL->non-NULL (or was registered) while the kernel condition already held, or a condition arose while the loop was blocked; distinct = executed action sequence hash",
        assumptions=["epoll and poll consult the same kernel ->poll callbacks, so poll(2) on the descriptor is the ground truth for both back ends",
                     "starvation rule allows one iteration of slack (two consecutive polls) because a level-triggered event may legitimately slip one epoll batch"],
    ),
    "C03": dict(
        level="exploration", labels=LOOP_LABELS,
        campaigns=[("loop", ["profile=fd"], 100000, 2000000), ("loop", ["profile=fd", "big=1"], 30000, 600000), ("loop", ["profile=all"], 20000, 400000)],
        rule="cases = fd-centred loop programs with handler-variant and cookie changes and struct reuse; every fd callback is checked against the shadow (registered, installed variant, current cookie), the ground-truth snapshot of the preceding poll, and a once-per-iteration rule; non-trivial = a descriptor was ready at one poll and not ready at the next while still registered, or a struct was reused while its descriptor was ready; distinct = executed action sequence hash",
        assumptions=["same ground truth as C02"],
    ),
    "C04": dict(
        level="exploration", labels=LOOP_LABELS,
        campaigns=[("loop", ["profile=timer"], 100000, 2000000), ("loop", ["profile=timer", "big=1"], 30000, 600000), ("loop", ["profile=all"], 20000, 400000)],
        rule="cases = timer-centred loop programs under a virtual clock (past/zero/equal/sub-ms/ms/far expiries, re-arm from handlers, fd wake-ups engaging the kernel-timer path, clock increments, EINTR); oracles: exactly once, never early (thread's last clock reading >= expiry), no oversleep (blocking deadline <= earliest expiry, +1 ms on ms-granular waits), due timer not left unfired over two waits, no spin; non-trivial = kernel-timer path armed and later cleared/re-armed, or a past/zero expiry, or a re-arm from a handler; distinct = executed action sequence hash",
        assumptions=["virtual clock: time advances only at clock readings (generated increments), BURN actions (followed by iv_invalidate_now as documented) and inside waits",
                     "timerfd is emulated by an eventfd fired when virtual time passes the programmed absolute deadline"],
    ),
    "C06": dict(
        level="exploration", labels=LOOP_LABELS,
        campaigns=[("loop", ["profile=task"], 100000, 2000000), ("loop", ["profile=task", "big=1"], 30000, 600000), ("loop", ["profile=all"], 20000, 400000)],
        rule="cases = task-centred loop programs (self/other/fresh/already-run re-registration from task handlers and other callbacks, ready fds and due timers alongside); oracles: exactly once, unregistered on entry, no blocking wait while a task is registered, a task slot runs at most once between two kernel polls; non-trivial = a task that already ran in this round was re-registered from a task handler while a descriptor or timer was due, or tasks were pending on >=5 consecutive iterations on epoll-timerfd (zero deadline through the kernel timer); distinct = executed action sequence hash",
        assumptions=[],
    ),
    "C07": dict(
        level="exploration", labels=LOOP_LABELS,
        campaigns=[("loop", ["profile=life"], 100000, 2000000), ("loop", ["profile=life", "big=1"], 30000, 600000), ("loop", ["profile=all"], 20000, 400000)],
        rule="cases = all-kind loop programs with iv_quit anywhere (including before iv_main), failing iv_fd_register_try (closed descriptor / regular file) and failing iv_event_register (descriptor creation EMFILE), budget-driven unregister-everything from any callback, second iv_main round; model = set of registered objects + quit flag; oracles at every wait entry (must not wait when model says return), at return (must not return early), callbacks only inside iv_main and never nested, nothing due at a blocking point, no spin; non-trivial = case with a quit, a failed registration, or zero objects reached from inside a callback; distinct = executed action sequence hash",
        assumptions=[],
    ),
}


ENGINES = [
    dict(name="vfz", path="harness/vfz.c", serves_properties=["C01", "C02", "C03", "C04", "C06", "C07"],
         kind_free_text="case driver: choice-sequence decoding, fork-per-case batch workers, result records, replay files; shrinking in bin/vlib.py"),
    dict(name="vk", path="harness/vk.c", serves_properties=["C01", "C02", "C03", "C04", "C06", "C07"],
         kind_free_text="virtual kernel boundary (-Wl,--wrap): virtual clock, wait primitives reduced to zero-timeout real polls + generated environment events, emulated timerfd, injectable syscall failures"),
    dict(name="loop", path="harness/t_loop.c", serves_properties=["C01", "C02", "C03", "C04", "C06", "C07"],
         kind_free_text="engine A: generated single-threaded loop programs with shadow model and per-property oracles"),
]
NOT_APPLICABLE = {}

_COMMON_NOTE = ("trusted: the harness' shadow model and oracles (harness/t_loop.c), the link-time interposition layer (harness/vk.c), the running "
                "kernel's poll/epoll semantics, clang ASan/UBSan. Generated-input search never establishes absence: the claim is 'no violation in "
                "the explored cases', with the case counts and label distribution recorded in the evidence file.")
_TECH = "property-based testing: seeded generated loop programs (online choice-sequence decoding) against the real library under ASan/UBSan with a virtual kernel; shadow-model oracle; choice-sequence shrinking to a replay file"
for _pid, _txt in {
    "C01": "exploration of generated register/unregister/free histories over 5 object kinds and 4 poll methods; stale-cookie oracle + AddressSanitizer on objects freed at unregister return",
    "C02": "exploration of generated fd histories with poll(2) ground truth at every wait; the loop may not block while a wanted band is ready and may not starve it over two polls",
    "C03": "exploration of generated fd histories; every fd callback is validated against registration state, installed handler variant, cookie, the ground-truth snapshot of the preceding poll and a once-per-iteration rule",
    "C04": "exploration of generated timer programs under a virtual clock; exactly-once, never-early, no-oversleep (exact to the ns on ns-granular waits and the kernel timer), due-not-fired and spin oracles",
    "C06": "exploration of generated task programs; exactly-once, unregistered-on-entry, no blocking with a task pending, at most one run per task slot between two kernel polls, timers not starved by task chains",
    "C07": "exploration of generated life-cycle programs (quit, failing registrations, zero objects via callbacks, second iv_main round); model of registered objects decides when iv_main must and must not return; nesting, blocking-point and spin oracles",
}.items():
    PROPS[_pid]["level_text"] = _txt
    PROPS[_pid]["level_note"] = _COMMON_NOTE
    PROPS[_pid]["technique"] = _TECH
    PROPS[_pid]["design_ref"] = "DESIGN.md section 3 (%s), sections 2.1-2.2" % _pid


def _corpus(prop):
    return sorted(glob.glob(os.path.join(VERIF, "corpus", prop, "*.case")))


def _report(prop, r, replay_path, out_lines):
    k = vlib.match_known(prop, r["tag"], r.get("msg", ""))
    if k:
        out_lines.append("KNOWN-FINDING: property=%s %s" % (prop, k["what"]))
        return 0
    out_lines.append("VIOLATION property=%s replay=%s" % (prop, replay_path))
    out_lines.append("  tag=%s %s" % (r["tag"], r.get("msg", "")[:300]))
    return 1


def confirm(exe, casefile, n=3):
    """Re-run in fresh processes; return the failing result if it reproduces in >= 2 of n runs."""
    rs = [vlib.run_case(exe, casefile) for _ in range(n)]
    bad = [r for r in rs if r["v"] in ("viol", "crash")]
    if len(bad) >= 2:
        tags = {}
        for r in bad:
            tags.setdefault(r["tag"], []).append(r)
        best = max(tags.values(), key=len)
        if len(best) >= 2:
            return best[0]
    return None


def replay(prop, spec, path):
    params, data = vlib.read_case(path)
    target = params.get("target", spec["campaigns"][0][0])
    exe = vlib.build(target)
    r = confirm(exe, path)
    if not r:
        one = vlib.run_case(exe, path, verbose=True)
        print("replay: no violation (%s %s)" % (one["v"], one["tag"]))
        return 0
    lines = []
    rc = _report(prop, r, path, lines)
    print("\n".join(lines))
    v = vlib.run_case(exe, path, verbose=True)
    if v.get("log"):
        print("--- trace ---"); print(v["log"][-6000:])
    if v.get("stderr") and r["v"] == "crash":
        print("--- stderr ---"); print(v["stderr"][:3000])
    return rc


def run_check(prop, spec, tier, seed, scale, write_evidence=True):
    t0 = time.time()
    outdir = os.path.join(vlib.BUILD, "run", "%s-%d" % (prop, os.getpid()))
    os.makedirs(outdir, exist_ok=True)
    rdir = os.path.join(VERIF, "replays", prop); os.makedirs(rdir, exist_ok=True)
    lines = []; nviol = 0; nknown = 0
    tot = dict(evals=0, ok=0, viol=0, crash=0, inc=0)
    labels = [0] * 64; hashes = set(); samples = []; counters = [0] * 16
    seen_tags = set()
    exes = {}
    for c in spec["campaigns"]:
        if c[0] not in exes:
            exes[c[0]] = vlib.build(c[0])

    def handle_failure(exe, casefile, origin):
        nonlocal nviol, nknown
        r = confirm(exe, casefile)
        if not r:
            lines.append("NOTE: %s failed once but did not reproduce in fresh processes (not reported)" % origin)
            return
        key = (r["v"], r["tag"])
        if key in seen_tags:
            return
        seen_tags.add(key)
        params, data = vlib.read_case(casefile)
        small = vlib.shrink(exe, params, data, r, outdir, budget_s=45 if tier == "quick" else 120)
        hh = hashlib.sha1(small).hexdigest()[:10]
        safe = re.sub(r"[^A-Za-z0-9_.@-]", "_", r["tag"])[:60]
        rp = os.path.join(rdir, "%s-%s.case" % (safe, hh))
        vlib.write_case(rp, params, small, comment="property %s tag %s\n%s\nfound by: %s seed=%d tier=%s" % (prop, r["tag"], r.get("msg", "")[:200], origin, seed, tier))
        rr = confirm(exe, rp) or r
        rc = _report(prop, rr, rp, lines)
        if rc:
            nviol += 1
        else:
            nknown += 1

    # 1. regression corpus
    ncorp = 0
    for cf_ in _corpus(prop):
        params, _ = vlib.read_case(cf_)
        tgt = params.get("target", spec["campaigns"][0][0])
        if tgt not in exes:
            exes[tgt] = vlib.build(tgt)
        r = vlib.run_case(exes[tgt], cf_, ["prop=" + prop])
        ncorp += 1
        tot["evals"] += 1
        if r["v"] == "ok":
            tot["ok"] += 1
        elif r["v"] == "inc":
            tot["inc"] += 1
        else:
            handle_failure(exes[tgt], cf_, "corpus:" + os.path.basename(cf_))

    # 2. generated campaigns
    for ci, (target, params, nq, nt_) in enumerate(spec["campaigns"]):
        n = int((nq if tier == "quick" else nt_) * scale)
        if n <= 0:
            continue
        exe = exes[target]
        summ, fails, samp, broken = vlib.run_batch(exe, seed * 1000 + ci, n, ["prop=" + prop] + params, outdir, label="c%d" % ci)
        if broken:
            sys.stderr.write("worker without summary: %r\n" % (broken[:2],))
        for k in tot:
            tot[k] += summ[k]
        for i in range(64):
            labels[i] += summ["labels"][i]
        for i in range(16):
            counters[i] += summ["c"][i]
        hashes |= summ["hashes"]
        samples += [(exe, s) for s in samp[:2]]
        for f in fails[:6]:
            handle_failure(exe, f["file"], "campaign %d (%s %s) idx %d" % (ci, target, " ".join(params), f["idx"]))

    wall = time.time() - t0
    # 3. evidence
    sample_out = []
    for exe, s in samples[:4]:
        r = vlib.run_case(exe, s, ["prop=" + prop], verbose=True)
        params, data = vlib.read_case(s)
        sample_out.append(dict(case_bytes=data.hex()[:400], params=params, trace=r.get("log", "").splitlines()[:60]))
    names = spec.get("labels", [])
    labcounts = {names[i] if i < len(names) else "label%d" % i: labels[i] for i in range(64) if labels[i]}
    ev = dict(property_id=prop, tier=tier, seed=seed, level=spec["level"],
              coverage=dict(evaluations=tot["evals"], distinct_nontrivial=len(hashes), rule=spec["rule"], samples=sample_out,
                            conclusive=tot["ok"] + tot["viol"] + tot["crash"], inconclusive=tot["inc"], corpus_cases=ncorp,
                            label_counts=labcounts, counters=counters, violations_reported=nviol, known_findings_reported=nknown),
              assumptions=spec.get("assumptions", []), wall_s=round(wall, 1), violations=nviol)
    if write_evidence:
        os.makedirs(os.path.join(VERIF, "evidence"), exist_ok=True)
        json.dump(ev, open(os.path.join(VERIF, "evidence", prop + ".json"), "w"), indent=1)
    shutil.rmtree(outdir, ignore_errors=True)
    for l in lines:
        print(l)
    print("%s %s: %d cases (%d ok, %d inconclusive), %d distinct non-trivial, %d violation(s), %d known, %.1fs" %
          (prop, tier, tot["evals"], tot["ok"], tot["inc"], len(hashes), nviol, nknown, wall))
    if nviol:
        return 1
    need = spec.get("min_conclusive", 200 if tier == "quick" else 1000) * min(1.0, scale)
    if tot["ok"] < need:
        print("CHECK BROKEN: only %d conclusive cases (need %d)" % (tot["ok"], need))
        return 2
    if len(hashes) < 2:
        print("CHECK BROKEN: generator produced %d non-trivial cases" % len(hashes))
        return 2
    return 0
