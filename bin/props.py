"""Per-property check specifications and the generic check runner."""
import json, os, sys, time, glob, re, hashlib, shutil
import vlib
from vlib import VERIF

LOOP_LABELS = ["unreg_due_victim_in_callback", "unreg_self_in_callback", "handler_set_on_ready_fd", "condition_arose_while_blocked",
               "ready_then_not_ready", "struct_reuse_while_ready", "timerfd_armed", "timerfd_rearmed_or_cleared", "past_or_zero_expiry",
               "timer_rearm_from_handler", "task_rereg_same_round_with_other_work_due", "zero_deadline_kernel_timer", "quit", "failed_registration",
               "zero_objects_via_callback", "ended_legitimately_blocked", "eintr_injected", "second_iv_main_round", "event_posted", "raw_posted",
               "three_or_more_callbacks_in_one_iteration", "budget_cleanup", "epoll_pwait2_fallback", "task_self_rereg", "handlerless_fd",
               "equal_expiry", "unreg_pending_timer_in_callback", "level_triggered_repeat", "method_epoll_timerfd", "method_epoll", "method_ppoll",
               "method_poll", "free_in_oneshot_handler", "event_register_failure", "raw_post_inside_own_handler", "far_timer_clamp",
               "timerfd_enosys_fallback", "ppoll_enosys_fallback", "raw_burst_gt_1000", "raw_post_from_signal_handler", "raw_post_from_forked_child",
               "raw_pipe_transport", "raw_old_eventfd_transport", "raw_burst_multiple_of_1024",
               "fault_injection_reached", "method_switched", "same_struct_reregistered_without_init", "iv_main_rerun_after_quit_from_handler"]

_COMMON_NOTE = ("trusted: the harness' shadow model and oracles (harness/t_loop.c), the link-time interposition layer (harness/vk.c), the running "
                "kernel's poll/epoll semantics, clang ASan/UBSan. Generated-input search never establishes absence: the claim is 'no violation in "
                "the explored cases', with the case counts and label distribution recorded in the evidence file.")
_TECH = "property-based testing: seeded generated loop programs (online choice-sequence decoding) against the real library under ASan/UBSan with a virtual kernel; shadow-model oracle; choice-sequence shrinking to a replay file"

# Each campaign: target, params, quick count, thorough count
PROPS = {
    "C01": dict(
        level="exploration", labels=LOOP_LABELS,
        campaigns=[("loop", ["profile=all"], 100000, 2000000), ("loop", ["profile=all", "big=1"], 30000, 600000),
                   ("loop", ["profile=fd"], 20000, 400000), ("mt", ["profile=event"], 15000, 300000),
                   ("sig", [], 6000, 120000), ("wait", [], 6000, 120000), ("ino", [], 2000, 40000)],
        rule="cases = online-decoded loop programs (register/unregister/set-handler/post from setup and callbacks over fds, timers, tasks, events, raw events; 4 poll methods; malloc/free-at-unregister or slot-reuse allocation) from seeded PRNG bytes; non-trivial = the case executed, inside a callback, an unregister of an object that was due in that iteration and not yet dispatched, or of the running object itself; distinct = distinct hash of the executed action sequence + configuration",
        assumptions=["objects are freed/poisoned by the harness at the instant unregister returns; stale accesses are visible through AddressSanitizer or through a stale cookie cell",
                     "the mt campaign adds cross-thread event kicks whose handlers unregister and free descriptors collected in the same poll batch",
                     "signal interests, wait interests and inotify objects are covered by campaigns on the sig / wait / ino targets (same rule: handler of an unregistered object, or ASan on the freed struct)"],
    ),
    "C02": dict(
        level="exploration", labels=LOOP_LABELS,
        campaigns=[("loop", ["profile=fd"], 100000, 2000000), ("loop", ["profile=fd", "big=1"], 30000, 600000), ("loop", ["profile=all"], 20000, 400000)],
        rule="cases = fd-centred loop programs (handlers cleared/re-set, interest changes, peer traffic/close from callbacks and while blocked) from seeded PRNG bytes; ground truth = poll(2) on every registered harness descriptor at every wait; non-trivial = a handler went NULL->non-NULL (or was registered) while the kernel condition already held, or a condition arose while the loop was blocked; distinct = executed action sequence hash",
        assumptions=["epoll and poll consult the same kernel ->poll callbacks, so poll(2) on the descriptor is the ground truth for both back ends",
                     "starvation rule allows one iteration of slack (two consecutive polls) because a level-triggered event may legitimately slip one epoll batch"],
    ),
    "C03": dict(
        level="exploration", labels=LOOP_LABELS,
        campaigns=[("loop", ["profile=fd"], 100000, 2000000), ("loop", ["profile=fd", "big=1"], 30000, 600000), ("loop", ["profile=all"], 20000, 400000),
                   ("mt", ["profile=event"], 10000, 200000)],
        rule="cases = fd-centred loop programs with handler-variant and cookie changes and struct reuse (plus multi-threaded programs in which a cross-thread event's handler moves a struct iv_fd to another descriptor while entries of the same poll batch are outstanding: a handler run for a descriptor that was never readable is a violation); every fd callback is checked against the shadow (registered, installed variant, current cookie), the ground-truth snapshot of the preceding poll, and a once-per-iteration rule; non-trivial = a descriptor was ready at one poll and not ready at the next while still registered, or a struct was reused while its descriptor was ready; distinct = executed action sequence hash",
        assumptions=["same ground truth as C02"],
    ),
    "C04": dict(
        level="exploration", labels=LOOP_LABELS,
        campaigns=[("loop", ["profile=timer"], 100000, 2000000), ("loop", ["profile=timer", "big=1"], 30000, 600000), ("loop", ["profile=all"], 20000, 400000)],
        rule="cases = timer-centred loop programs under a virtual clock (past/zero/equal/sub-ms/ms/far expiries, re-arm from handlers, fd wake-ups engaging the kernel-timer path, clock increments, EINTR); oracles: exactly once, never early (thread's last clock reading >= expiry), no oversleep (blocking deadline <= earliest expiry, +1 ms on ms-granular waits), due timer not left unfired over two waits, no spin; non-trivial = kernel-timer path armed and later cleared/re-armed, or a past/zero expiry, or a re-arm from a handler; distinct = executed action sequence hash",
        assumptions=["virtual clock: time advances only at clock readings (generated increments), BURN actions (followed by iv_invalidate_now as documented) and inside waits",
                     "timerfd is emulated by an eventfd fired when virtual time passes the programmed absolute deadline"],
    ),
    "C06": dict(
        level="exploration", labels=LOOP_LABELS,
        campaigns=[("loop", ["profile=task"], 100000, 2000000), ("loop", ["profile=task", "big=1"], 30000, 600000), ("loop", ["profile=all"], 20000, 400000),
                   ("loop", ["profile=task", "marathon=70000", "cpu_limit=60", "timeout=120"], 16, 64)],
        rule="cases = task-centred loop programs (self/other/fresh/already-run re-registration from task handlers and other callbacks, ready fds and due timers alongside); oracles: exactly once, unregistered on entry, no blocking wait while a task is registered, a task slot runs at most once between two kernel polls; plus a few 'marathon' cases of 70000 loop iterations with a self re-registering task beside a readable descriptor (wrapping counters); non-trivial = a task that already ran in this round was re-registered from a task handler while a descriptor or timer was due, or tasks were pending on >=5 consecutive iterations on epoll-timerfd (zero deadline through the kernel timer); distinct = executed action sequence hash",
        assumptions=[],
    ),
    "C07": dict(
        level="exploration", labels=LOOP_LABELS,
        campaigns=[("loop", ["profile=life"], 100000, 2000000), ("loop", ["profile=life", "big=1"], 30000, 600000), ("loop", ["profile=all"], 20000, 400000),
                   ("loop", ["profile=task", "marathon=300"], 400, 8000)],
        rule="cases = (marathon campaign: a task that re-registers itself 300 times beside a readable descriptor - the loop must get back to the kernel between its runs, three runs in a row without a poll is a loop spinning in its task phase;) all-kind loop programs with iv_quit anywhere (including before iv_main), failing iv_fd_register_try (closed descriptor / regular file) and failing iv_event_register (descriptor creation EMFILE), budget-driven unregister-everything from any callback, second iv_main round; model = set of registered objects + quit flag; oracles at every wait entry (must not wait when model says return), at return (must not return early), callbacks only inside iv_main and never nested, nothing due at a blocking point, no spin; non-trivial = case with a quit, a failed registration, or zero objects reached from inside a callback; distinct = executed action sequence hash",
        assumptions=[],
    ),
}

AVL_LABELS = ["rotate_left", "rotate_right", "rotate_left_right", "rotate_right_left", "delete_leaf", "delete_one_child", "delete_two_children_left_victim",
              "delete_two_children_right_victim", "duplicate_insert", "multi_level_rebalance", "tree_emptied", "next_prev_probe", "delete_root", "height_ge_5", "difference_comparator", "for_each_safe_with_deleting_body"]


def _avl_parts(height, parts, sample=0):
    return [["mode=exh", "height=%d" % height, "part=%d" % i, "parts=%d" % parts, "cpu_limit=0"] + (["sample=%d" % sample] if sample else []) for i in range(parts)]


PROPS["C16"] = dict(
    level="exploration", labels=AVL_LABELS, engine="avl",
    campaigns=[dict(target="avl", quick=_avl_parts(4, 4) + _avl_parts(5, 12, sample=6000), thorough=_avl_parts(5, 16),
                    exhaustive_quick="every AVL shape of height <= 4 (1+1+3+15+315 shapes) x every insert gap, every duplicate insert and every node deletion; height 5 sampled",
                    exhaustive_thorough="every AVL shape of height <= 5 (108675 shapes of height 5) x every insert gap, every duplicate insert and every node deletion"),
               ("avl", [], 6000, 100000), ("avl", ["big=1"], 600, 10000), ("avl", ["mode=big", "cpu_limit=60"], 48, 960)],
    rule="(a) enumeration: every AVL shape up to the stated height, built through the public node fields with keys 2,4,6..; per shape one case per insert position (odd keys), per duplicate insert (even keys) and per deletable node; every (shape, operation) pair is distinct by construction and counted once; (c) large trees (20000-65000 nodes; ascending, descending, pseudo-random, delete-half-and-refill) with a full structural check every 4096 operations; (b) random mixed insert/delete/next/prev histories over small key ranges (8..511, so duplicates are frequent), nodes individually malloc'ed and freed at delete; non-trivial history = contains all 4 rotation kinds, two-children deletions with the victim taken from either side, and a duplicate insert; distinct = hash of the operation sequence. After EVERY operation: full walk (BST order, parent links, exact recorded heights, |balance|<=1, node set = model), forward and backward traversal = model order, failed duplicate insert leaves the tree bit-identical",
    assumptions=["comparator is a total order on integer keys", "exhaustive only up to the stated height; beyond it random histories (heights up to ~10) and large trees of 20000-65000 nodes (heights 15-20) checked every 4096 operations"],
    level_text="bounded-exhaustive enumeration of all AVL shapes up to height 4 (quick) / 5 (thorough) crossed with every insert position, duplicate and deletion, plus random long histories, each operation followed by a complete structural comparison with a reference ordered set",
    level_note="trusted: the reference model (sorted presence array) and the structural walk in harness/t_avl.c; ASan for freed nodes. Exhaustive only within the stated height; exploration beyond.",
    technique="property-based testing: bounded-exhaustive shape enumeration + seeded random operation histories against a reference ordered-set model, full invariant walk after every step; choice-sequence shrinking",
    design_ref="DESIGN.md section 3 (C16)",
)
TIMERS_LABELS = ["cross_128_up", "cross_128_down", "cross_16384_up", "cross_16384_down", "interior_removal", "remove_earliest", "remove_last_registered",
                 "equal_keys", "unregister_of_timer_in_expired_batch", "bulk_register", "bulk_unregister", "register_from_handler", "past_expiry",
                 "empty_then_refill", "method_epoll_timerfd", "method_epoll", "method_ppoll", "method_poll", "far_future", "extreme_expiry_value", "same_struct_reregistered_without_init"]
PROPS["C05"] = dict(
    level="exploration", labels=TIMERS_LABELS, engine="timers",
    campaigns=[("timers", [], 40000, 800000), ("timers", ["large=1"], 2500, 50000), ("loop", ["profile=timer"], 30000, 600000)],
    rule="cases = (loop campaign: small timer populations beside a descriptor that keeps waking the loop, so that the kernel-timer path of the epoll-timerfd method is armed for one timer's expiry when another, earlier one is registered - a timer that cannot fire before the kernel timer armed for a later one is a violation, as is the order rule at every handler entry;) histories of iv_timer_register / iv_timer_unregister / bulk register (ascending, descending, all-equal, scattered, few distinct keys) / bulk unregister (newest, oldest, always-the-earliest, scattered interior) / burn, executed at setup and from timer handlers, populations steered across 127/128/129 and (large profile) 16383/16384/16385 in both directions, expiries incl. past, equal, far-future and extreme values, 4 poll methods, virtual clock; reference model = binary heap with lazy deletion + per-timer record; oracles: order rule at every handler entry, never early, a timer is due at <= 1 wait entry before it fires (independence: depends only on its own expiry), blocking deadline <= earliest model expiry, earliest timer not left due over two waits, iv_fatal/sanitizer = violation; non-trivial = case with >=1 removal of a timer that is neither the earliest nor the last registered while >=3 are registered AND a population boundary crossing; distinct = hash of the executed operation sequence",
    assumptions=["virtual clock as in C04", "every timer struct individually malloc'ed and freed at unregister / after firing (ASan)"],
    level_text="exploration of generated timer histories at populations from 0 to >33000 against a reference multiset model under a virtual clock; every handler entry and every blocking point is checked",
    level_note="trusted: the reference heap and per-timer bookkeeping in harness/t_timers.c, the virtual kernel layer, ASan/UBSan. No violation found in the explored histories is not absence.",
    technique="model-based property testing: seeded generated register/unregister histories against a reference multiset model under a virtual clock; choice-sequence shrinking",
    design_ref="DESIGN.md section 3 (C05)",
)
PUMP_LABELS = ["buffer_full_pollin_dropped", "eof_read_with_data_buffered", "hard_error_with_data_buffered", "splice_mode", "read_write_mode", "relay_eof_flag",
               "short_transfer_injected", "eagain_injected", "eintr_injected", "destroy_midstream_with_data", "second_pump_same_thread", "completed",
               "free_mode", "socket_input", "socket_output", "output_peer_gone", "stream_gt_250k", "backpressure", "eof_relayed_by_shutdown", "empty_stream",
               "crowd_of_pumps_in_one_thread", "crowd_larger_than_buffer_cache"]
PROPS["C17"] = dict(
    level="exploration", labels=PUMP_LABELS, engine="pump",
    campaigns=[("pump", [], 60000, 1200000)],
    rule="cases = 1-3 pump sessions per thread, each: input/output on pipes or unix stream sockets (small or default buffers), stream length 0..300k of position-dependent bytes, generated write chunking / consumer drain amounts / input close point / output-peer close / destroy mid-stream, band-driven or free calling mode, RELAY_EOF on/off, splice or read-write mode (splice probe made to fail), injected short transfers, EAGAIN, EINTR and one hard write error; oracles after every iv_fd_pump_pump call: consumer bytes == input bytes at every offset, buffered = written - FIONREAD(in) - FIONREAD(out peer) - consumed computed from outside, pollout == (buffered>0), pollin only dropped with data buffered or at end-of-file, pollin restored after bytes moved out, return 0 only at EOF with nothing buffered (then sticky, is_done), -1 only after an injected error or a vanished peer, shutdown(SHUT_WR) only with RELAY_EOF, at EOF and with nothing buffered, no stall; non-trivial = session reached buffer-full AND end-of-file with data still buffered, or a hard error with data buffered, or a destroy with data buffered followed by another pump; distinct = hash of configuration + operation sequence",
    assumptions=["FIONREAD is exact on pipes and AF_UNIX stream sockets (checked in the design prototype against the pump's own byte count)",
                 "descriptors are non-blocking as they are after iv_fd_register"],
    level_text="exploration of generated relay sessions with fault injection at the read/write/splice boundary; stream equality and externally computed pump state after every call",
    level_note="trusted: the external byte accounting in harness/t_pump.c, kernel FIONREAD, link-time interposition of read/write/splice/shutdown; ASan/UBSan.",
    technique="property-based testing with fault injection: seeded generated I/O schedules, round-trip (stream equality) and state-accounting oracles; choice-sequence shrinking",
    design_ref="DESIGN.md section 3 (C17)",
)
MT_LABELS = ["context_switch_inside_iv_event_post", "context_switch_at_owner_lock_boundary", "cross_thread_post", "self_post", "post_from_handler",
             "unregister_with_post_pending", "two_owner_loops", "work_pool", "submit_while_all_workers_busy", "submit_after_idle_timer_expiry_worker_alive",
             "submit_before_any_worker_ran", "continuation_from_worker", "put_while_work_running", "put_while_worker_starting", "put_while_workers_idle",
             "worker_died_of_idle_timeout", "iv_thread_child", "iv_thread_exit_without_deinit", "iv_thread_pthread_exit", "method_epoll_timerfd",
             "method_epoll", "method_ppoll", "method_poll", "raw_event_kick_transport", "eventfd_fallback_transport", "fd_unregistered_in_event_handler",
             "pool_struct_reuse", "submit_from_completion", "virtual_time_passed_10s", "post_burst", "raw_cross_thread_post", "raw_big_burst",
             "null_pool_work", "put_from_completion", "iv_thread_create_fails", "pool_worker_create_fails", "first_event_register_emfile", "work_item_struct_resubmitted_from_its_completion", "owner_busy_with_self_reregistering_task", "owner_stalls_in_handler", "post_local_event_then_unregister_other_pending_one"]
_MT_NOTE = ("trusted: the baton scheduler (harness/vsched.c: preemption only at interposed lock / kick / descriptor-I/O / wait / thread create-join points), "
            "the virtual kernel, the harness' history bookkeeping in harness/t_mt.c, ASan/UBSan. Races between two plain memory accesses are out of reach "
            "here (C14's TSan runs look for those). Exploration of generated schedules, not an exhaustive interleaving search.")
_MT_TECH = "property-based testing over generated programs AND generated schedules: real pthreads serialised by a baton at every interposed synchronisation point, virtual time, history-invariant oracles at quiescence; two-stream choice-sequence shrinking (schedule first, then program)"
PROPS["C08"] = dict(
    level="exploration", labels=MT_LABELS, engine="mt",
    campaigns=[("mt", ["profile=event"], 40000, 800000), ("mt", ["profile=all"], 15000, 300000), ("race", [], 800, 20000)],
    rule="cases = (program bytes, schedule bytes): 1-2 owner loops with stop/shared/private iv_events, 0-3 poster threads with drawn scripts (post, burst, yield, pipe write, raw post), handlers that post to themselves / the other owner, register and unregister private events, optional work pool and iv_thread children in the same loops; 4 poll methods (epoll one-shot kick and raw-event kick transports) x eventfd2/eventfd/pipe; schedule = choice at every lock, unlock, epoll_ctl, descriptor read/write, wait, thread create/join; oracles: whenever every thread is parked (before virtual time advances, and at deadlock) no registered event may have a completed post that is not followed by a handler entry; handler count <= post count; handler thread = owner; deadlock = violation; non-trivial = a context switch happened inside an iv_event_post call or at an owner-side lock boundary; distinct = hash(program actions)",
    assumptions=["preemption only at interposed synchronisation points (sufficient for lock-, kick- and wake-up-order defects); windows of a few plain instructions are covered by the additional ThreadSanitizer campaign (free-running scenarios of the race target: an unsynchronised access to the event lists is an interleaving that can lose or corrupt a post)"],
    level_text="exploration of generated poster/owner programs under generated schedules on both wake-up transports; lost wake-ups are detected as quiescence with an undelivered post, not by timeouts",
    level_note=_MT_NOTE, technique=_MT_TECH, design_ref="DESIGN.md sections 2.3 and 3 (C08)")
PROPS["C12"] = dict(
    level="exploration", labels=MT_LABELS, engine="mt",
    campaigns=[("mt", ["profile=work"], 40000, 800000), ("mt", ["profile=all"], 15000, 300000), ("hyg", ["flood=66000", "cpu_limit=45", "timeout=150"], 16, 64)],
    rule="cases = (flood campaign, free-running threads: 66000-70000 items through one pool with 2/8/501/3001 in flight, each must run once in a worker and complete once in the owner and the loop must end - more submissions than a 16-bit sequence counter holds;) (program bytes, schedule bytes): pool with max_threads 1-4, submissions at setup, from completions, from timers at virtual +1 ms / +0.5 s / +9.999 s / +10 s / +10.001 s / +20 s (around the 10 s idle timeout), continuations submitted from work functions, NULL-pool submissions, work functions with yield points, pool release at generated moments; oracles: per item work exactly once in a non-owner thread, completion exactly once in the owner after work returned, running work functions <= max_threads, every submitted item complete when the owner's loop ends, quiescence with incomplete items = violation; non-trivial = a submission while all started workers were busy, or after the idle timeout with a worker still alive, or before any worker ran; distinct = hash(program actions)",
    assumptions=["same scheduler granularity as C08"],
    level_text="exploration of generated submission programs under generated schedules and virtual time across the idle timeout",
    level_note=_MT_NOTE, technique=_MT_TECH, design_ref="DESIGN.md sections 2.3 and 3 (C12)")
PROPS["C13"] = dict(
    level="exploration", labels=MT_LABELS, engine="mt",
    campaigns=[("mt", ["profile=pool"], 40000, 800000), ("mt", ["profile=all"], 15000, 300000)],
    rule="cases = as C12 plus iv_thread_create children ending by return / pthread_exit, with / without iv_init and iv_deinit; iv_work_pool_put from setup-time actions, completions, timers and shutdown, the pool struct poisoned and freed the moment put returns; oracles: every item submitted before the release completes, per worker thread_start then exactly one thread_stop, when the owner's iv_main returns every pool thread and every iv_thread child has finished AND was joined exactly once, iv_main does return (deadlock detector), ASan on the freed pool struct; non-trivial = release while work was running or workers idle, or an iv_thread child; distinct = hash(program actions)",
    assumptions=["same scheduler granularity as C08", "thread exit is observed through a harness TLS destructor that lets the library's own destructors run under the schedule first"],
    level_text="exploration of generated release / thread-exit timings under generated schedules",
    level_note=_MT_NOTE, technique=_MT_TECH, design_ref="DESIGN.md sections 2.3 and 3 (C13)")
PROPS["C09"] = dict(
    level="exploration", labels=LOOP_LABELS, engine="loop",
    campaigns=[("loop", ["profile=raw"], 60000, 1200000), ("mt", ["profile=event"], 25000, 500000)],
    rule="cases = (a) single-threaded loop programs centred on iv_event_raw: posts from the owner thread, from inside the object's own handler, from a signal handler, from a forked child, bursts of 1..70000 posts (incl. exact multiples of 1024 and more than a 64 KiB pipe holds) with the loop not running, transports eventfd2 / old eventfd / pipe (creation calls made to fail); (b) multi-threaded programs (engine B) with posts from other threads under generated schedules; oracles: the loop may not block (and all threads may not park) while a registered raw event has a post that is not followed by a handler run; handler only while registered and in the owner thread; every write issued by a post must go to a non-blocking descriptor (else: would it block right now? -> post-would-block); non-trivial = a post from inside the own handler, from a signal handler, from a forked child, a burst > 1000 on the pipe transport, or (b) a cross-thread post; distinct = hash of executed actions",
    assumptions=["signal-handler posts are raised synchronously at generated points of the program (not between arbitrary instructions)"],
    level_text="exploration of generated post/handler/unregister programs over the three transports, four poster contexts and large bursts; blocking posts are detected at the write boundary instead of by hanging",
    level_note=_COMMON_NOTE, technique=_TECH, design_ref="DESIGN.md section 3 (C09)")
SIG_LABELS = ["mixed_flags_on_one_signal", "delivery_inside_handler", "exclusive_unregistered_with_delivery_open", "this_thread_candidates", "two_owner_threads",
              "raise_inside_register_or_unregister", "fork_child_raises", "receiver_without_loop_state", "handoff_to_non_exclusive", "coalesced_delivery",
              "last_unregister_restores_default", "method_epoll_timerfd", "method_epoll", "method_ppoll", "method_poll", "exclusive_candidates",
              "this_thread_shadows_process_wide", "other_threads_this_thread_interest_not_woken", "pipe_transport",
              "out_of_range_signum_refused", "forked_child_registers_first_interest", "forked_child_registers_beside_inherited_interests"]
PROPS["C10"] = dict(
    level="exploration", labels=SIG_LABELS, engine="sig",
    campaigns=[("sig", [], 60000, 1200000)],
    rule="cases = (program bytes, schedule bytes): 1-2 owner loops each with up to 5 interests over 3 signal numbers (SIGUSR1, SIGUSR2, SIGRTMIN+1) and flags {0, EXCLUSIVE, THIS_THREAD, both}, an optional plain raiser thread without loop state, deliveries raised by whichever thread holds the baton (also from inside handlers and from inside iv_signal_register/unregister while the library has signals blocked), register/unregister in any order incl. exclusive interests with an open delivery, fork of a child that raises every signal itself; oracle = obligation model as a validity predicate: candidates of a delivery = the receiver's this-thread interests if any, else the process-wide ones; no exclusive candidate -> every candidate owes a handler run after the delivery; exclusive candidates -> at least one of them (or, after they are unregistered, whatever the same tree holds then) must run; handler runs per interest <= deliveries it was a candidate for (never woken for other threads' this-thread deliveries, never by a forked child); all obligations discharged whenever every thread is parked; sigaction disposition is SIG_DFL exactly when no interest is registered; handler thread = registering thread; non-trivial = >=2 interests of different flags on one signal, or a delivery inside a handler, or an exclusive interest unregistered while its delivery was open; distinct = hash(program actions)",
    assumptions=["deliveries are self-directed (pthread_kill to the running thread), so signals arrive at yield points and wrapped libc calls, not between arbitrary instructions",
                 "the generator keeps a delivery and ANOTHER thread's register/unregister of the same signal apart (no defined candidate set for that race); C14 covers that race for data races"],
    level_text="exploration of generated interest sets, delivery points and schedules against an obligation model; order of handler invocations is left free, as in the documentation",
    level_note=_MT_NOTE, technique=_MT_TECH, design_ref="DESIGN.md section 3 (C10)")
WAIT_LABELS = ["stranger_terminates", "two_changes_queued_for_one_child", "pid_reuse", "spawned_child_exits_at_once", "unregister_from_handler", "kill_helper",
               "kill_helper_after_death", "stop_continue", "two_owner_threads", "register_for_existing_child", "cross_thread_delivery", "method_epoll_timerfd",
               "method_epoll", "method_ppoll", "method_poll", "unregister_with_status_pending", "three_or_more_changes_in_one_reap", "stranger_before_any_interest", "kill_helper_races_reaping_thread"]
PROPS["C11"] = dict(
    level="exploration", labels=WAIT_LABELS, engine="wait",
    campaigns=[("wait", [], 60000, 1200000)],
    rule="cases = (program bytes, schedule bytes): 1-2 owner loops, up to 6 wait interests each, a population of up to 24 VIRTUAL children (fork / wait4 / kill interposed; the harness raises real SIGCHLD signals in whichever thread causes a state change): children spawned through iv_wait_interest_register_spawn (living on, or exiting inside fork() before the interest is in the tree), children nobody watches, interests registered later for existing children, stop / continue / exit / kill sequences with several changes queued before the loop runs, pid reuse after a reap, unregister from the handler or at any time, the kill helper with TERM/KILL/STOP/CONT on live and on already reaped children; what wait4() hands to the library is recorded and is the reference: every interest must be told exactly the reaped changes of its child, in order, in its registering thread, nothing after unregister, all of them by the time every thread is parked; every queued change gets reaped while any interest is registered; kill() never sees a pid whose termination was reaped and the helper answers -ESRCH then; non-trivial = a stranger terminated, or >=2 changes were queued for one child, or a pid was reused; distinct = hash(program actions)",
    assumptions=["children are virtual: process creation, reaping and signalling are interposed at the libc boundary; the real-fork path of the spawn helper (child side) is not executed here",
                 "with two loops, registering an interest for an already existing child is not generated (its race with a concurrent reap has no defined outcome)"],
    level_text="exploration of generated child populations, state-change sequences and schedules; the reference is what the library itself was handed by wait4, so kernel merging of states cannot cause a mismatch",
    level_note=_MT_NOTE, technique=_MT_TECH, design_ref="DESIGN.md section 3 (C11)")
INO_LABELS = ["read_with_3_or_more_records", "unregister_with_records_still_unparsed", "unregister_own_watch_in_handler", "unregister_other_watch_in_handler",
              "unregister_instance_in_handler", "oneshot_watch", "kernel_removed_watch", "reregister_same_struct_in_handler", "event_with_name", "two_instances",
              "method_epoll_timerfd", "method_epoll", "method_ppoll", "method_poll", "records_suppressed", "instance_unregistered_before_first_event",
              "unknown_wd_record", "fs_ops_inside_handler"]
PROPS["C20"] = dict(
    level="exploration", labels=INO_LABELS, engine="ino",
    campaigns=[("ino", [], 16000, 320000), ("race", ["ino=1"], 300, 6000)],
    min_conclusive=150,
    rule="cases = (a) 1-2 iv_inotify instances (heap allocated, non-zeroed) with up to 5 watches each on a per-case scratch directory, its files and a sub-directory, masks incl. IN_ONESHOT; generated bursts of 1-12 file-system operations (create, append, truncate, rename, unlink, mkdir, rmdir, open/read, chmod) from a timer chain and from inside handlers; handler scripts unregister their own watch, another watch, the whole instance, or re-register a dropped watch struct from its own handler; reference = the byte stream returned by the library's own read() of the inotify descriptor (captured at the libc boundary): each record must be delivered, in order, to exactly the watch whose descriptor it carries, with identical wd/mask/cookie/name, unless that watch or the instance has been unregistered by then (then it must NOT be delivered); one-shot and IN_IGNORED watches are already dropped when their handler runs (the struct is reused/freed there); the loop may not block while the kernel still has events queued; everything freed at unregister (ASan); (b) free-running multi-threaded scenarios (race target, ThreadSanitizer build) in which 2+ loop threads each own an inotify instance watching their own directory and create/unlink 24 files named after the thread: an event named after another thread, or a conflicting unsynchronised access inside the event parser, is a violation; non-trivial = (a) one read carried >=3 records AND a handler unregistered something while records for it were still unparsed, (b) two or more loop threads; distinct = hash(executed actions)",
    assumptions=["the running kernel's inotify semantics (coalescing, IN_IGNORED generation) are taken as they come: the reference is what the kernel handed to the library", "one watch per inode and instance (the API cannot represent two)"],
    level_text="exploration of generated watch sets, file-system bursts and handler scripts on real inotify instances; record-by-record comparison with the kernel's own stream",
    level_note="trusted: the record bookkeeping in harness/t_ino.c, interposition of read() at the libc boundary, the running kernel's inotify; ASan/UBSan.",
    technique="property-based testing: seeded generated file-system operation bursts and handler scripts; differential oracle against the raw kernel event stream; choice-sequence shrinking",
    design_ref="DESIGN.md section 3 (C20)")
POPEN_LABELS = ["child_died_between_two_signals", "child_ignored_term_until_kill", "child_exited_before_close", "close_while_child_alive", "child_dies_on_first_term",
                "child_stops_and_continues", "several_requests", "real_exec_child", "type_r", "type_w", "method_epoll_timerfd", "method_epoll", "method_ppoll",
                "method_poll", "child_exit_at_signal_timer_instant", "request_never_closed", "signal_to_zombie", "child_dies_on_nth_term", "fork_fails_then_resubmit", "unrelated_child_ends_at_the_same_moment"]
PROPS["C19"] = dict(
    level="exploration", labels=POPEN_LABELS, engine="popen",
    campaigns=[("popen", [], 40000, 800000), ("popen", ["real=1"], 400, 4000)],
    rule="cases = (a) 1-3 popen requests with VIRTUAL children (fork/wait4/kill interposed) under a virtual clock: child dies on the n-th SIGTERM (n=1..5), ignores SIGTERM, ends by itself at a generated instant (incl. exactly at / 1 ms around the 5 s signalling instants), stops and continues; close at once, at a generated instant before/at/after the child's end, or never; (b) a real exec'ed helper (type r and w) that reports the wiring of its standard streams and every signal over a side pipe, with a data round-trip through the returned descriptor; oracles: signals only after the close, first one at the close instant, then exactly 5 s apart, 5 x SIGTERM then SIGKILL, never to a pid whose termination was reaped; every closed request's child is brought down and reaped, no zombie and no live child when iv_main returns, iv_main does return; stdin/stdout/stderr wiring and data as documented; request struct freed at close (ASan); non-trivial = child died between two signals of the sequence, or ignored SIGTERM up to the SIGKILL, or a real child; distinct = hash(configuration + actions)",
    assumptions=["virtual children: the child side of the fork (dup2/exec wiring) is covered only by the real-helper campaign", "real-helper campaign waits in real time (bounded) only to synchronise with the child; exhausting that budget would be reported as inconclusive"],
    level_text="exploration of child behaviours x close timings x request types under virtual time, plus a real exec'ed helper for wiring and data",
    level_note="trusted: virtual process layer and signalling bookkeeping in harness/t_popen.c, the helper program harness/popen_child.c, virtual kernel; ASan/UBSan.",
    technique="property-based testing: seeded generated child behaviours and close timings under a virtual clock and virtual process layer; invariant over the kill history; choice-sequence shrinking",
    design_ref="DESIGN.md section 3 (C19)")
HYG_LABELS = ["thread_exit_without_deinit", "thread_with_deinit", "poll_arrays_method", "more_than_16384_timers", "pump_buffers_cached", "work_pool", "iv_event",
              "kernel_timer_created", "inotify_instance", "signal_interest", "method_epoll_timerfd", "method_epoll", "method_ppoll", "method_poll",
              "failed_register_try", "main_thread_cycles", "pump_splice_cached", "raw_event", "application_iv_tls_module", "more_than_65536_submissions_to_one_pool"]
PROPS["C18"] = dict(
    level="exploration", labels=HYG_LABELS, engine="hyg",
    campaigns=[("hyg", [], 6000, 120000), ("hyg", ["big=1"], 400, 8000), ("loop", ["profile=all"], 40000, 800000), ("mt", ["profile=all"], 10000, 200000),
               ("pump", [], 10000, 200000), ("ino", [], 3000, 60000)],
    rule="cases = (a) hygiene sequences: one generated program (1-3 registered sockets incl. register_try and a failing register_try, 1..17000 timers due at once, a far timer with a descriptor that stays readable so that the kernel-timer descriptor gets created, task, iv_event, raw event, this-thread signal interest, inotify instance, work pool with 1-4 items, two pump sessions of which one is destroyed with data buffered) replayed in 4-8 init->use->deinit cycles, in the main thread and in short-lived threads that call iv_deinit or simply exit, on each poll method; after the two warm-up cycles the allocated byte count (__sanitizer_get_current_allocated_bytes), the set of open descriptors (/proc/self/fd) and the thread count must equal their warm-up values after EVERY cycle, LeakSanitizer must find nothing, registered descriptors must be O_NONBLOCK and FD_CLOEXEC; (b) the programs of the loop / mt / pump / inotify targets with every object individually heap-allocated and freed or poisoned at the earliest documented moment, under ASan+UBSan (any report = violation); non-trivial (a) = sequence with a thread that exits without iv_deinit and either the poll/ppoll arrays, a work pool, pump buffers or the kernel timer; distinct = hash(config, cycle kinds, actions)",
    assumptions=["allocated-bytes equality is exact because every cycle replays the same program; the first two cycles absorb one-time allocations (TLS keys, libc caches)"],
    level_text="exploration of init/use/deinit and thread-churn sequences with exact resource accounting, plus sanitizer-instrumented runs of all other generated programs",
    level_note="trusted: ASan/UBSan/LSan runtimes, /proc/self/fd and /proc/self/task as ground truth for descriptors and threads, the harness programs.",
    technique="property-based testing under AddressSanitizer/UBSan/LeakSanitizer: seeded generated programs replayed over init/deinit cycles with an exact resource-equality oracle; choice-sequence shrinking",
    design_ref="DESIGN.md section 3 (C18)")
PROPS["C15"] = dict(
    level="fault_enumeration", labels=LOOP_LABELS, engine="loop", custom="c15",
    campaigns=[("loop", ["profile=all"], 0, 0)],
    rule="see evidence (written by bin/c15.py)",
    level_text="fault enumeration: for every sampled program and each of the 4 poll methods, EINTR at every k-th wait call (exhaustive in k up to a bound), every optional system call failing with ENOSYS / EPERM / EINVAL from the first or from the k-th call, and generated method-exclusion strings; every run judged by all loop oracles, interrupted runs additionally compared with the uninterrupted run",
    level_note=_COMMON_NOTE + " Exhaustive in k for each program (up to the stated bound), sampled in programs; splice / pipe2 fallbacks are exercised by the pump target (C17), the cross-thread kick transports by C08/C09.",
    technique="fault injection enumeration at the system-call boundary over seeded generated programs, with the C01-C09 shadow-model oracles and a differential (same action sequence) oracle for interrupted waits",
    design_ref="DESIGN.md section 3 (C15)")
RACE_LABELS = ["cross_thread_iv_event_post", "cross_thread_raw_post", "work_pool", "continuation_from_worker", "signal_delivered", "child_reaped", "loop_init_deinit_churn",
               "two_independent_loops", "method_epoll_timerfd", "method_epoll", "method_ppoll", "method_poll", "pipe_transport", "iv_thread", "two_posters_same_events",
               "loops_start_before_first_event_registered", "inotify_instance_per_loop_thread", "signal_interest_churn_in_several_threads"]
PROPS["C14"] = dict(
    level="exploration", labels=RACE_LABELS, engine="race",
    campaigns=[("race", [], 2400, 60000)],
    min_conclusive=300,
    rule="cases = free-running multi-threaded scenarios built with ThreadSanitizer (library + harness): a main loop with iv_events, a raw event, optional process-wide signal interest, optional wait interests for real forked children and an optional work pool whose work functions submit continuations; 0-3 poster threads posting to those events / the raw event and raising SIGUSR1 at the process, 0-2 threads that run their own independent loops through 1-4 init -> register/post/timer -> deinit rounds, started before or after the main loop registered its first event; 4 poll methods; oracle = ThreadSanitizer (happens-before): every report is a violation except those on the one-way feature-detection flags named in the property (suppressions by global name: inited, epoll_support, epoll_pwait2_support, eventfd_in_use, pipe2_support, splice_available, iv_event_use_event_raw, method, clock_source); non-trivial = >=2 threads besides main, or >=1 plus a work pool or children; distinct = hash(configuration)",
    assumptions=["signals are accepted by poster threads only (ThreadSanitizer defers asynchronous signals without regard to the receiving thread's later signal mask, which would fabricate re-entrancy into the library's signals-blocked sections)",
                 "the ThreadSanitizer build uses the library's pipe-based spin lock configuration (HAVE_PTHREAD_SPIN_TRYLOCK undefined): TSan's model of pthread spin locks taken in signal handlers is unreliable (it reports 'double lock' on the unchanged tree)",
                 "a report needs both accesses to occur in a run; exploration, not a schedule-independent verdict"],
    level_text="exploration of free-running multi-threaded scenarios under ThreadSanitizer's happens-before analysis; a single report is conclusive, absence of reports is not",
    level_note="trusted: ThreadSanitizer (clang 14) and its interceptors, the suppression list (exactly the flags named in the property plus the errno-in-signal-handler report, which is not a conflicting access).",
    technique="fuzzing-style generated multi-threaded scenarios under ThreadSanitizer (dynamic happens-before race detection) with a whitelist oracle",
    design_ref="DESIGN.md sections 2.4 and 3 (C14)")

ENGINES = [
    dict(name="vfz", path="harness/vfz.c", serves_properties=["C01", "C02", "C03", "C04", "C06", "C07"],
         kind_free_text="case driver: choice-sequence decoding, fork-per-case batch workers, result records, replay files; shrinking in bin/vlib.py"),
    dict(name="vk", path="harness/vk.c", serves_properties=["C01", "C02", "C03", "C04", "C06", "C07"],
         kind_free_text="virtual kernel boundary (-Wl,--wrap): virtual clock, wait primitives reduced to zero-timeout real polls + generated environment events, emulated timerfd, injectable syscall failures"),
    dict(name="loop", path="harness/t_loop.c", serves_properties=["C01", "C02", "C03", "C04", "C06", "C07"],
         kind_free_text="engine A: generated single-threaded loop programs with shadow model and per-property oracles"),
]
ENGINES.append(dict(name="avl", path="harness/t_avl.c", serves_properties=["C16"], kind_free_text="AVL tree: bounded-exhaustive shape enumeration and random histories against a reference ordered set"))
ENGINES.append(dict(name="timers", path="harness/t_timers.c", serves_properties=["C05"], kind_free_text="timer heap histories at large populations against a reference multiset model, virtual clock"))
ENGINES.append(dict(name="pump", path="harness/t_pump.c", serves_properties=["C17"], kind_free_text="iv_fd_pump sessions with interposed read/write/splice/shutdown and external byte accounting"))
ENGINES.append(dict(name="vsched", path="harness/vsched.c", serves_properties=["C08", "C12", "C13"], kind_free_text="engine B: baton scheduler over real pthreads with generated schedules (second choice stream), deadlock/quiescence detection, virtual time"))
ENGINES.append(dict(name="mt", path="harness/t_mt.c", serves_properties=["C08", "C12", "C13"], kind_free_text="multi-threaded scenario programs: owners, posters, work pool, iv_thread children"))
ENGINES.append(dict(name="sig", path="harness/t_sig.c", serves_properties=["C10"], kind_free_text="iv_signal scenarios on engine B with an obligation-model oracle"))
ENGINES.append(dict(name="wait", path="harness/t_wait.c", serves_properties=["C11"], kind_free_text="iv_wait scenarios with virtual children (fork/wait4/kill interposed) on engine B"))
ENGINES.append(dict(name="ino", path="harness/t_ino.c", serves_properties=["C20"], kind_free_text="iv_inotify on real inotify instances, reference = the stream read() returned to the library"))
ENGINES.append(dict(name="popen", path="harness/t_popen.c", serves_properties=["C19"], kind_free_text="iv_popen with virtual children under virtual time, plus a real exec'ed helper"))
ENGINES.append(dict(name="hyg", path="harness/t_hyg.c", serves_properties=["C18"], kind_free_text="init/use/deinit cycles with exact memory, descriptor and thread accounting"))
ENGINES.append(dict(name="race", path="harness/t_race.c", serves_properties=["C14"], kind_free_text="free-running multi-threaded scenarios, ThreadSanitizer build"))
NOT_APPLICABLE = {}

for _pid, _txt in {
    "C01": "exploration of generated register/unregister/free histories over 5 object kinds and 4 poll methods; stale-cookie oracle + AddressSanitizer on objects freed at unregister return",
    "C02": "exploration of generated fd histories with poll(2) ground truth at every wait; the loop may not block while a wanted band is ready and may not starve it over two polls",
    "C03": "exploration of generated fd histories; every fd callback is validated against registration state, installed handler variant, cookie, the ground-truth snapshot of the preceding poll and a once-per-iteration rule",
    "C04": "exploration of generated timer programs under a virtual clock; exactly-once, never-early, no-oversleep (exact to the ns on ns-granular waits and the kernel timer), due-not-fired and spin oracles",
    "C06": "exploration of generated task programs; exactly-once, unregistered-on-entry, no blocking with a task pending, at most one run per task slot between two kernel polls, timers not starved by task chains",
    "C07": "exploration of generated life-cycle programs (quit, failing registrations, zero objects via callbacks, second iv_main round); model of registered objects decides when iv_main must and must not return; nesting, blocking-point and spin oracles",
}.items():
    PROPS[_pid]["level_text"] = _txt
    PROPS[_pid]["level_note"] = _COMMON_NOTE
    PROPS[_pid]["technique"] = _TECH
    PROPS[_pid]["design_ref"] = "DESIGN.md section 3 (%s), sections 2.1-2.2" % _pid


def _corpus(prop):
    return sorted(glob.glob(os.path.join(VERIF, "corpus", prop, "*.case")))


def _report(prop, r, replay_path, out_lines):
    k = vlib.match_known(prop, r["tag"], r.get("msg", ""))
    if k:
        out_lines.append("KNOWN-FINDING: property=%s %s" % (prop, k["what"]))
        return 0
    out_lines.append("VIOLATION property=%s replay=%s" % (prop, replay_path))
    out_lines.append("  tag=%s %s" % (r["tag"], r.get("msg", "")[:300]))
    return 1


def _extra_params(exe):
    # the popen target's helper program lives beside the target binary (replay files do not pin a build directory)
    return ["helper=" + os.path.join(os.path.dirname(exe), "popen_child")] if os.path.basename(exe) == "t_popen" else []


def confirm(exe, casefile, n=3):
    """Re-run in fresh processes; return the failing result if it reproduces in >= 2 of n runs."""
    rs = [vlib.run_case(exe, casefile, _extra_params(exe)) for _ in range(n)]
    bad = [r for r in rs if r["v"] in ("viol", "crash")]
    if len(bad) >= 2:
        tags = {}
        for r in bad:
            tags.setdefault(r["tag"], []).append(r)
        best = max(tags.values(), key=len)
        if len(best) >= 2:
            return best[0]
    return None


def replay(prop, spec, path):
    params, data = vlib.read_case(path)
    c0 = spec["campaigns"][0]
    target = params.get("target", c0["target"] if isinstance(c0, dict) else c0[0])
    exe = vlib.build(target)
    r = confirm(exe, path)
    if not r:
        one = vlib.run_case(exe, path, _extra_params(exe), verbose=True)
        print("replay: no violation (%s %s)" % (one["v"], one["tag"]))
        return 0
    lines = []
    rc = _report(prop, r, path, lines)
    print("\n".join(lines))
    v = vlib.run_case(exe, path, verbose=True)
    if v.get("log"):
        print("--- trace ---"); print(v["log"][-6000:])
    if v.get("stderr") and r["v"] == "crash":
        print("--- stderr ---"); print(v["stderr"][:3000])
    return rc


# generator regions and oracles added after the seeded rounds 2-4 (DESIGN.md 9.7-9.9); appended to the rule text in the evidence
RULE_ADD = {
    "C01": "; also: object structs filled with generated bytes before their INIT macro, the same struct registered again without a second INIT, iv_quit from handlers with up to three iv_main runs, iv_*_registered() queries compared with the model on every callback entry, a struct iv_fd moved to another descriptor from a cross-thread event handler (mt campaign)",
    "C02": "; also: uninitialised caller memory under the structs, same-struct re-registration, iv_quit + re-run with collected work outstanding, iv_fd_registered() compared with the model in every callback",
    "C03": "; also: same-struct re-registration and iv_fd_registered() queries as in C02",
    "C04": "; also: iv_timer_registered() of every other timer compared with the model on every callback entry (a due timer that has not fired is still registered), same-struct re-registration of fired and unregistered timers, iv_quit from a timer handler with other timers of the batch outstanding, then iv_main again",
    "C05": "; also: previously used timer structs registered again without IV_TIMER_INIT",
    "C06": "; also: a marathon of 70000 self re-registrations; iv_task_registered() compared with the model in every callback",
    "C07": "; also: three runs of one task in a row without a kernel poll (task-phase spin); up to three iv_main runs per case",
    "C08": "; also: owners that are busy (a self re-registering task for 3-65 rounds, so the loop polls with a zero timeout): a completed post must be delivered within four rounds / four polls while every other thread is parked; an owner's first iv_event_register failing with EMFILE (raw-event transport) must leave the thread able to register and receive later; same-struct re-registration of private events; ThreadSanitizer campaign of the race target",
    "C09": "; also: descriptors opened by iv_event_raw_register and closed by iv_event_raw_unregister must balance and no close() of the library may hit a descriptor that is not open; the eventfd family refused with EPERM from the k-th call on while earlier objects stay in use; iv_quit from a raw handler with other raw events collected, then iv_main again",
    "C10": "; also: iv_signal_register with out-of-range signal numbers (must fail and leave the signal mask as it was); a forked child that registers an interest of its own beside the inherited ones before raising (poll/ppoll methods) - the parent's handlers must stay silent; an epilogue in which a forked child starts its own loop, registers its first interest and signals itself; same-struct re-registration",
    "C11": "; also: when the kill helper is called for a child that has terminated but is not reaped and another owner thread exists, the scheduler hands over to that thread at the helper's first synchronisation point in half of the calls",
    "C12": "; also: pthread_create failing (EAGAIN) when the pool wants a worker, followed by another submission; the owner stalling inside a handler for up to 20 s of virtual time while the other threads run; the struct of an item whose completion is running submitted again",
    "C13": "; also: worker creation failure, owner stalls and item struct reuse as in C12",
    "C14": "; also: pool thread_start/thread_stop hooks of different durations, signal interests for one (never sent) number coming and going in all loop threads (thread-restricted and process-wide), an inotify instance per loop thread, the kill helper called repeatedly around the reap, a pending event unregistered while other threads post",
    "C16": "; also: comparators returning the key difference times 1/2/1000/1000000 (negative/zero/positive contract) in two thirds of the random histories; traversal with iv_avl_tree_for_each and with iv_avl_tree_for_each_safe whose body deletes and frees the node it stands on; large mode: 3000-40000 nodes in worst-case and sorted orders (heights beyond 16)",
    "C17": "; also: a crowd of 17-26 pumps of one thread back-pressured at the same time and then drained (more idle buffers than the per-thread cache keeps), iv_fd_pump_is_done() compared with the pump's return value",
    "C18": "; also: an application iv_tls module whose ->deinit_thread calls ivykis functions (hooks must run in an initialised context and be paired); libc's thread cache is filled before the reference measurement",
    "C19": "; also: fork() failing once at a submission (which must fail cleanly and is repeated), unrelated children of the application that end at the same moment as a popen child and are reported by wait4 first",
    "C20": "",
}


TARGET_LABELS = {"loop": LOOP_LABELS, "avl": AVL_LABELS, "timers": TIMERS_LABELS, "pump": PUMP_LABELS, "mt": MT_LABELS, "sig": SIG_LABELS,
                 "wait": WAIT_LABELS, "ino": INO_LABELS, "popen": POPEN_LABELS, "hyg": HYG_LABELS, "race": RACE_LABELS}


def run_check(prop, spec, tier, seed, scale, write_evidence=True):
    if spec.get("custom") == "c15":
        import c15
        return c15.run(prop, spec, tier, seed, scale, write_evidence)
    t0 = time.time()
    outdir = os.path.join(vlib.BUILD, "run", "%s-%d" % (prop, os.getpid()))
    os.makedirs(outdir, exist_ok=True)
    rdir = os.path.join(VERIF, "replays", prop); os.makedirs(rdir, exist_ok=True)
    lines = []; nviol = 0; nknown = 0
    tot = dict(evals=0, ok=0, viol=0, crash=0, inc=0)
    labels = {}; hashes = set(); samples = []; counters = [0] * 16   # labels: (target, bit) -> number of cases
    seen_tags = set()
    exes = {}
    enum_nontrivial = [0]; enum_samples = []
    for c in spec["campaigns"]:
        t = c["target"] if isinstance(c, dict) else c[0]
        if t not in exes:
            exes[t] = vlib.build(t)

    def handle_failure(exe, casefile, origin):
        nonlocal nviol, nknown
        # a ThreadSanitizer report is conclusive by itself (happens-before analysis): the run that produced it need not repeat
        errf = casefile[:-5] + ".stderr"
        if os.path.exists(errf):
            et = open(errf, errors="replace").read()
            ttag = vlib.crash_tag(et) if "ThreadSanitizer" in et else None
            if ttag and ttag.startswith("tsanh."):
                lines.append("NOTE: %s: ThreadSanitizer report between two accesses of the harness itself (not a library access; not reported)" % origin)
                return
            if ttag and ttag.startswith("tsan."):
                if ("crash", ttag) in seen_tags:
                    return
                seen_tags.add(("crash", ttag))
                params, data = vlib.read_case(casefile)
                hh = hashlib.sha1(data + ttag.encode()).hexdigest()[:10]
                rp = os.path.join(rdir, "%s-%s.case" % (re.sub(r"[^A-Za-z0-9_.@-]", "_", ttag)[:60], hh))
                first = et[et.find("WARNING: ThreadSanitizer"):][:1800]
                vlib.write_case(rp, params, data, comment="property %s tag %s (scenario is free-running: the report may need several replays to show again)\n%s" % (prop, ttag, first))
                rc = _report(prop, dict(v="crash", tag=ttag, msg=first.splitlines()[0] if first else ""), rp, lines)
                if rc:
                    nviol += 1
                else:
                    nknown += 1
                return
        r = confirm(exe, casefile)
        if not r:
            lines.append("NOTE: %s failed once but did not reproduce in fresh processes (not reported)" % origin)
            return
        key = (r["v"], r["tag"])
        if key in seen_tags:
            return
        seen_tags.add(key)
        params, data = vlib.read_case(casefile)
        small, params = vlib.shrink(exe, params, data, r, outdir, budget_s=int(os.environ.get("VERIF_SHRINK_S", 45 if tier == "quick" else 120)))
        hh = hashlib.sha1(small).hexdigest()[:10]
        safe = re.sub(r"[^A-Za-z0-9_.@-]", "_", r["tag"])[:60]
        rp = os.path.join(rdir, "%s-%s.case" % (safe, hh))
        vlib.write_case(rp, params, small, comment="property %s tag %s\n%s\nfound by: %s seed=%d tier=%s" % (prop, r["tag"], r.get("msg", "")[:200], origin, seed, tier))
        rr = confirm(exe, rp) or r
        rc = _report(prop, rr, rp, lines)
        if rc:
            nviol += 1
        else:
            nknown += 1

    # 1. regression corpus
    ncorp = 0
    for cf_ in _corpus(prop):
        params, _ = vlib.read_case(cf_)
        c0 = spec["campaigns"][0]
        tgt = params.get("target", c0["target"] if isinstance(c0, dict) else c0[0])
        if tgt not in exes:
            exes[tgt] = vlib.build(tgt)
        extra = ["helper=" + os.path.join(os.path.dirname(exes[tgt]), "popen_child")] if tgt == "popen" else []
        r = vlib.run_case(exes[tgt], cf_, ["prop=" + prop] + extra)
        ncorp += 1
        tot["evals"] += 1
        if r["v"] == "ok":
            tot["ok"] += 1
        elif r["v"] == "inc":
            tot["inc"] += 1
        else:
            handle_failure(exes[tgt], cf_, "corpus:" + os.path.basename(cf_))

    # 2. generated campaigns
    exhaustive_note = []
    for ci, camp in enumerate(spec["campaigns"]):
        if isinstance(camp, dict):
            # enumeration campaign: a list of parameter sets, each one in-process run that reports counters
            psets = camp["quick"] if tier == "quick" else camp["thorough"]
            exe = exes[camp["target"]]
            res = vlib.run_singles(exe, [["prop=" + prop] + ps for ps in psets], outdir)
            for ps, r in zip(psets, res):
                if r["v"] == "ok":
                    tot["ok"] += 1
                    tot["evals"] += r["c"][0]
                    enum_nontrivial[0] += r["c"][0]
                    for i in range(64):
                        if r["labels"] >> i & 1:
                            labels[(camp["target"], i)] = labels.get((camp["target"], i), 0) + 1
                    if r.get("log"):
                        enum_samples.append(dict(params=ps, trace=r["log"].splitlines()[:10]))
                elif r["v"] == "inc":
                    tot["inc"] += 1; tot["evals"] += 1
                else:
                    tot["evals"] += 1
                    cfp = os.path.join(outdir, "enum%d_%d.case" % (ci, len(seen_tags)))
                    vlib.write_case(cfp, dict([("target", camp["target"]), ("prop", prop)] + [tuple(x.split("=", 1)) for x in ps]), b"")
                    handle_failure(exe, cfp, "enumeration %s" % " ".join(ps))
            if camp.get("exhaustive_" + tier):
                exhaustive_note.append(camp["exhaustive_" + tier])
            continue
        target, params, nq, nt_ = camp
        n = int((nq if tier == "quick" else nt_) * scale)
        if n <= 0:
            continue
        exe = exes[target]
        if target == "popen":
            params = params + ["helper=" + os.path.join(os.path.dirname(exe), "popen_child")]
        summ, fails, samp, broken = vlib.run_batch(exe, seed * 1000 + ci, n, ["prop=" + prop] + params, outdir, label="c%d" % ci)
        if broken:
            sys.stderr.write("worker without summary: %r\n" % (broken[:2],))
        for k in tot:
            tot[k] += summ[k]
        for i in range(64):
            if summ["labels"][i]:
                labels[(target, i)] = labels.get((target, i), 0) + summ["labels"][i]
        for i in range(16):
            counters[i] += summ["c"][i]
        hashes |= summ["hashes"]
        samples += [(exe, s) for s in samp[:2]]
        for f in fails[:int(os.environ.get("VERIF_MAXFAIL", 6))]:
            handle_failure(exe, f["file"], "campaign %d (%s %s) idx %d" % (ci, target, " ".join(params), f["idx"]))

    wall = time.time() - t0
    # 3. evidence
    sample_out = []
    for exe, s in samples[:4]:
        r = vlib.run_case(exe, s, ["prop=" + prop], verbose=True)
        params, data = vlib.read_case(s)
        sample_out.append(dict(case_bytes=data.hex()[:400], params=params, trace=r.get("log", "").splitlines()[:60]))
    labcounts = {}
    for (tg, i), cnt in sorted(labels.items()):
        names = TARGET_LABELS.get(tg, [])
        labcounts["%s.%s" % (tg, names[i] if i < len(names) else "label%d" % i)] = cnt
    ev = dict(property_id=prop, tier=tier, seed=seed, level=spec["level"],
              coverage=dict(evaluations=tot["evals"], distinct_nontrivial=len(hashes) + enum_nontrivial[0], rule=spec["rule"] + RULE_ADD.get(prop, ""), samples=sample_out + enum_samples[:3],
                            exhaustive=bool(exhaustive_note), exhaustive_scope="; ".join(exhaustive_note),
                            conclusive=tot["ok"] + tot["viol"] + tot["crash"], inconclusive=tot["inc"], corpus_cases=ncorp,
                            label_counts=labcounts, counters=counters, violations_reported=nviol, known_findings_reported=nknown),
              assumptions=spec.get("assumptions", []), wall_s=round(wall, 1), violations=nviol)
    if write_evidence:
        os.makedirs(os.path.join(VERIF, "evidence"), exist_ok=True)
        json.dump(ev, open(os.path.join(VERIF, "evidence", prop + ".json"), "w"), indent=1)
    shutil.rmtree(outdir, ignore_errors=True)
    for l in lines:
        print(l)
    print("%s %s: %d cases (%d ok, %d inconclusive), %d distinct non-trivial, %d violation(s), %d known, %.1fs" %
          (prop, tier, tot["evals"], tot["ok"], tot["inc"], len(hashes) + enum_nontrivial[0], nviol, nknown, wall))
    if nviol:
        return 1
    need = spec.get("min_conclusive", 200 if tier == "quick" else 1000) * min(1.0, scale)
    if tot["ok"] < need:
        print("CHECK BROKEN: only %d conclusive cases (need %d)" % (tot["ok"], need))
        return 2
    if len(hashes) + enum_nontrivial[0] < 2:
        print("CHECK BROKEN: generator produced %d non-trivial cases" % len(hashes))
        return 2
    return 0
