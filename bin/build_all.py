#!/usr/bin/env python3
import os, sys
sys.path.insert(0, os.path.dirname(os.path.abspath(__file__)))
import vlib
for t in vlib.TARGETS:
    print("built", vlib.build(t))
