"""Shared machinery for /verif checks: build cache, batch running, confirmation, shrinking,
known findings, evidence.  Pure python3 stdlib."""
import hashlib, json, os, re, shutil, subprocess, sys, time, glob, concurrent.futures as cf

VERIF = os.path.dirname(os.path.dirname(os.path.abspath(__file__)))
REPO = os.environ.get("VERIF_REPO", "/repo")
BUILD = os.path.join(VERIF, "build")
HARNESS = os.path.join(VERIF, "harness")
NCPU = int(os.environ.get("VERIF_JOBS", "16"))

LIB_SRCS = ["iv_avl.c", "iv_event.c", "iv_fatal.c", "iv_task.c", "iv_timer.c", "iv_tls.c", "iv_work.c",
            "iv_event_raw_posix.c", "iv_fd.c", "iv_fd_poll.c", "iv_fd_pump.c", "iv_main_posix.c", "iv_popen.c",
            "iv_signal.c", "iv_thread_posix.c", "iv_tid_posix.c", "iv_time_posix.c", "iv_wait.c",
            "iv_fd_epoll.c", "iv_inotify.c"]

SAN = {
    "asan": ["-fsanitize=address,undefined", "-fno-sanitize=null,object-size", "-fno-sanitize-recover=undefined"],
    "tsan": ["-fsanitize=thread"],
    "fuzz": ["-fsanitize=address,undefined,fuzzer-no-link", "-fno-sanitize=null,object-size", "-fno-sanitize-recover=undefined"],
}
CFLAGS = ["-g", "-O1", "-fno-omit-frame-pointer", "-D_GNU_SOURCE", "-DIVYKIS_VERIF", "-Wall", "-Wno-unused-function", "-Wno-unused-variable"]

WRAPS_VK = ["clock_gettime", "epoll_wait", "epoll_pwait2", "poll", "ppoll", "epoll_ctl", "epoll_create",
            "timerfd_create", "timerfd_settime", "close", "pipe", "syscall", "read", "write"]

WRAPS_LOCK = ["pthread_mutex_lock", "pthread_mutex_unlock", "pthread_mutex_destroy"]
WRAPS_SCHED = ["pthread_mutex_lock", "pthread_mutex_unlock", "pthread_mutex_destroy", "pthread_spin_lock", "pthread_spin_unlock",
               "pthread_create", "pthread_join"]

# target -> (harness sources, wrap symbols, sanitizer flavour, extra link flags)
TARGETS = {
    "loop": (["vfz.c", "vk.c", "vlock.c", "t_loop.c"], WRAPS_VK + WRAPS_LOCK, "asan", []),
    "avl": (["vfz.c", "t_avl.c"], [], "asan", []),
    "timers": (["vfz.c", "vk.c", "vlock.c", "t_timers.c"], WRAPS_VK + WRAPS_LOCK, "asan", []),
    "pump": (["vfz.c", "t_pump.c"], ["read", "write", "splice", "shutdown"], "asan", []),
    "mt": (["vfz.c", "vk.c", "vsched.c", "t_mt.c"], WRAPS_VK + WRAPS_SCHED, "asan", []),
    "sig": (["vfz.c", "vk.c", "vsched.c", "t_sig.c"], WRAPS_VK + WRAPS_SCHED, "asan", []),
    "ino": (["vfz.c", "vk.c", "vlock.c", "t_ino.c"], WRAPS_VK + WRAPS_LOCK, "asan", []),
    "hyg": (["vfz.c", "t_hyg.c"], [], "asan", []),
    "race": (["vfz.c", "t_race.c"], [], "tsan", []),
    "popen": (["vfz.c", "vk.c", "vlock.c", "t_popen.c"], WRAPS_VK + WRAPS_LOCK + ["fork", "wait4", "kill"], "asan", []),
    "wait": (["vfz.c", "vk.c", "vsched.c", "t_wait.c"], WRAPS_VK + WRAPS_SCHED + ["fork", "wait4", "kill"], "asan", []),
}


def sh(cmd, **kw):
    return subprocess.run(cmd, stdout=subprocess.PIPE, stderr=subprocess.STDOUT, text=True, **kw)


def _hash_files(paths):
    h = hashlib.sha256()
    for p in sorted(paths):
        h.update(p.encode())
        try:
            with open(p, "rb") as f:
                h.update(f.read())
        except OSError:
            h.update(b"<missing>")
    return h.hexdigest()[:16]


def repo_inputs():
    fs = glob.glob(os.path.join(REPO, "src", "*.[ch]")) + glob.glob(os.path.join(REPO, "src", "include", "*.h")) \
        + glob.glob(os.path.join(REPO, "src", "include", "*.in"))
    fs.append(os.path.join(REPO, "config.h"))
    return fs


def prepare_gen_headers(bdir):
    """config.h / iv.h are generated (untracked) files; fall back to recorded copies on a fresh restore."""
    inc = os.path.join(bdir, "geninc")
    os.makedirs(inc, exist_ok=True)
    cfg = os.path.join(REPO, "config.h")
    if not os.path.exists(cfg):
        cfg = os.path.join(VERIF, "support", "config.h")
    shutil.copy(cfg, os.path.join(inc, "config.h"))
    ivh = os.path.join(REPO, "src", "include", "iv.h")
    if os.path.exists(ivh):
        shutil.copy(ivh, os.path.join(inc, "iv.h"))
    else:
        s = open(os.path.join(REPO, "src", "include", "iv.h.in")).read().replace("@ac_cv_timespec_hdr@", "sys/time.h")
        open(os.path.join(inc, "iv.h"), "w").write(s)
    return inc


def build(target, quiet=False):
    """Compile the library from /repo's working tree + harness, return path of the target binary."""
    hs, wraps, san, extra = TARGETS[target]
    key = _hash_files(repo_inputs() + [os.path.join(HARNESS, f) for f in os.listdir(HARNESS)] + [__file__]) + "-" + san
    bdir = os.path.join(BUILD, key)
    exe = os.path.join(bdir, "t_" + target)
    if os.path.exists(exe):
        os.utime(bdir)
        return exe
    os.makedirs(bdir, exist_ok=True)
    _gc_builds(keep=bdir)
    inc = prepare_gen_headers(bdir)
    if san == "tsan":
        # ThreadSanitizer's model of pthread spin locks taken inside signal handlers is unreliable (it reports "double lock" on the
        # unchanged tree and then stops ordering through that lock).  The library's other, equally supported configuration -- the
        # pipe-based spin lock of spinlock.h, used where pthread_spin_trylock is missing -- is modelled exactly (fd release/acquire).
        cfgp = os.path.join(inc, "config.h")
        cfg_txt = open(cfgp).read().replace("#define HAVE_PTHREAD_SPIN_TRYLOCK 1", "/* #undef HAVE_PTHREAD_SPIN_TRYLOCK (tsan build) */")
        open(cfgp, "w").write(cfg_txt)
    incs = ["-I" + inc, "-I" + os.path.join(REPO, "src"), "-I" + os.path.join(REPO, "src", "include"), "-I" + HARNESS]
    cc = ["clang"] + CFLAGS + SAN[san] + incs
    jobs = []
    objs = []
    libdir = os.path.join(bdir, "lib"); os.makedirs(libdir, exist_ok=True)
    for s in LIB_SRCS:
        o = os.path.join(libdir, s[:-2] + ".o")
        objs.append(o)
        if not os.path.exists(o):
            jobs.append((cc + ["-w", "-c", os.path.join(REPO, "src", s), "-o", o], o))
    hobjs = []
    for s in hs:
        o = os.path.join(bdir, "h_" + s.replace(".cc", ".o").replace(".c", ".o"))
        hobjs.append(o)
        comp = cc if s.endswith(".c") else (["clang++", "-std=gnu++17"] + cc[1:])
        if not os.path.exists(o):
            jobs.append((comp + ["-c", os.path.join(HARNESS, s), "-o", o], o))
    with cf.ThreadPoolExecutor(NCPU) as ex:
        res = list(ex.map(lambda j: (j, sh(j[0])), jobs))
    for (cmd, o), r in res:
        if r.returncode != 0:
            sys.stderr.write("BUILD FAILED: %s\n%s\n" % (" ".join(cmd), r.stdout))
            for (_, o2), _r in res:
                if os.path.exists(o2) and _r.returncode != 0:
                    os.unlink(o2)
            raise SystemExit(2)
        if r.stdout.strip() and not quiet and "warning" in r.stdout and "/harness/" in r.stdout:
            sys.stderr.write(r.stdout)
    linker = "clang++" if any(s.endswith(".cc") for s in hs) else "clang"
    cmd = [linker] + SAN[san] + hobjs + objs + ["-Wl,--wrap=" + w for w in wraps] + extra + ["-lpthread", "-o", exe + ".tmp"]
    r = sh(cmd)
    if r.returncode != 0:
        sys.stderr.write("LINK FAILED: %s\n%s\n" % (" ".join(cmd), r.stdout))
        raise SystemExit(2)
    if target == "popen":
        r = sh(["gcc", "-O1", "-o", os.path.join(bdir, "popen_child"), os.path.join(HARNESS, "popen_child.c")])
        if r.returncode != 0:
            sys.stderr.write("helper build failed: %s\n" % r.stdout)
            raise SystemExit(2)
    os.rename(exe + ".tmp", exe)
    return exe


def _gc_builds(keep, maxdirs=24):
    try:
        ds = [os.path.join(BUILD, d) for d in os.listdir(BUILD) if re.fullmatch(r"[0-9a-f]{16}-\w+", d)]
    except OSError:
        return
    ds = [d for d in ds if d != keep]
    ds.sort(key=lambda d: os.path.getmtime(d))
    while len(ds) > maxdirs:
        shutil.rmtree(ds.pop(0), ignore_errors=True)


# ---------------------------------------------------------------------------------------------
ENV_BASE = dict(os.environ)
ENV_BASE["ASAN_OPTIONS"] = "detect_leaks=0:abort_on_error=0:allocator_may_return_null=1:handle_abort=1:symbolize=1:detect_stack_use_after_return=0"
ENV_BASE["UBSAN_OPTIONS"] = "print_stacktrace=1:halt_on_error=1"
ENV_BASE["ASAN_SYMBOLIZER_PATH"] = shutil.which("llvm-symbolizer") or shutil.which("llvm-symbolizer-14") or ""


# per-target environment overrides (LeakSanitizer is needed by the hygiene target only)
TARGET_ENV = {"race": {"TSAN_OPTIONS": "suppressions=%s exitcode=66 halt_on_error=0 report_signal_unsafe=0 report_thread_leaks=0 history_size=4" % os.path.join(VERIF, "support", "tsan.supp")},
              "hyg": {"ASAN_OPTIONS": ENV_BASE["ASAN_OPTIONS"].replace("detect_leaks=0", "detect_leaks=1:leak_check_at_exit=0")}}


def env_for(exe):
    t = os.path.basename(exe)[2:]
    if t in TARGET_ENV:
        e = dict(ENV_BASE); e.update(TARGET_ENV[t]); return e
    return ENV_BASE


def parse_res(out):
    m = re.search(r"^RES v=(\S+) prop=(\S*) tag=(\S+) labels=([0-9a-f]+) hash=([0-9a-f]+) nt=(\d) c=(\S+) used=(\d+) msg=(.*)$", out, re.M)
    if not m:
        return None
    return dict(v=m.group(1), prop=m.group(2), tag=m.group(3), labels=int(m.group(4), 16), hash=m.group(5), nt=int(m.group(6)),
                c=[int(x) for x in m.group(7).split(",")], used=int(m.group(8)), msg=m.group(9))


def crash_tag(err):
    """Derive a stable tag from sanitizer output: kind + first library frame."""
    kind = None
    m = re.search(r"WARNING: ThreadSanitizer: ([\w -]+?) \(pid", err)
    if m:
        kind = "tsan." + m.group(1).strip().replace(" ", "-")
        if kind == "tsan.data-race":
            # both racing accesses made by harness code itself (first frame with a source path, interceptors skipped): a defect of
            # the harness, not of the library - reported as a note, never as a violation
            first = err[m.start():]
            end = first.find("SUMMARY: ThreadSanitizer")
            blk = first[:end if end > 0 else len(first)]
            tops = []
            for am in re.finditer(r"^\s*(?:Previous )?(?:atomic )?(?:[Rr]ead|[Ww]rite) of size \d+ at .*?$((?:\n\s+#\d+ .*)+)", blk, re.M):
                top = None
                for fm in re.finditer(r"#\d+ \S+ (/\S+?):\d+", am.group(1)):
                    top = fm.group(1); break
                tops.append(top)
            if len(tops) >= 2 and all(t and "/harness/" in t for t in tops[:2]):
                return "tsanh.harness-internal-race"
        g = re.search(r"Location is global '(\w+)'", err)
        fr = None
        for fm in re.finditer(r"#\d+ (\w+) (\S+)", err):
            if "/src/" in fm.group(2) and "/harness/" not in fm.group(2):
                fr = fm.group(1); break
        return kind + ("@" + fr if fr else "") + (":" + g.group(1) if g else "")
    m = re.search(r"ERROR: AddressSanitizer: ([\w-]+)", err)
    if m:
        kind = "asan." + m.group(1)
    else:
        m = re.search(r"runtime error: (.{0,60})", err)
        if m:
            kind = "ubsan." + re.sub(r"[^a-z]+", "-", m.group(1).lower())[:40].strip("-")
        elif "LeakSanitizer" in err:
            kind = "lsan.leak"
    if not kind:
        return None
    fr = None
    for m in re.finditer(r"#\d+ 0x[0-9a-f]+ in (\w+) (\S+)", err):
        if "/src/" in m.group(2) and "/harness/" not in m.group(2):
            fr = m.group(1)
            break
    return kind + ("@" + fr if fr else "")


def run_case(exe, casefile, params=(), verbose=False, timeout=120):
    cmd = [exe, "run", casefile] + list(params) + (["verbose=1"] if verbose else [])
    # output goes to temporary files, not pipes: a helper process left behind by the case must not be able to keep us waiting;
    # the case runs in its own session so that such helpers can be killed afterwards
    import tempfile, signal as _sig
    with tempfile.TemporaryFile() as fo, tempfile.TemporaryFile() as fe:
        p = subprocess.Popen(cmd, stdout=fo, stderr=fe, env=env_for(exe), start_new_session=True)
        timed_out = False
        try:
            p.wait(timeout=timeout)
        except subprocess.TimeoutExpired:
            timed_out = True
        try:
            os.killpg(p.pid, _sig.SIGKILL)
        except OSError:
            pass
        p.wait()
        if timed_out:
            return dict(v="inc", tag="timeout", msg="wall-clock budget", log="", prop="", stderr="")
        fo.seek(0); fe.seek(0)
        out = fo.read().decode("utf-8", "replace"); err = fe.read().decode("utf-8", "replace")
    r = parse_res(out)
    log = "\n".join(l[4:] for l in out.splitlines() if l.startswith("LOG "))
    if r and r["v"] in ("ok", "viol", "inc") and (p.returncode in (0, 3, 4)):
        r["log"] = log; r["stderr"] = err
        return r
    if p.returncode == -14:
        return dict(v="inc", tag="timeout", msg="alarm", log=log, prop="", stderr=err)
    tag = crash_tag(err) or ("exit%d" % p.returncode)
    return dict(v="crash", tag=tag, msg=(err.strip().splitlines() or [""])[0][:300], log=log, prop="", stderr=err)


def read_case(path):
    params = {}; data = b""
    for line in open(path):
        line = line.strip()
        if not line or line.startswith("#"):
            continue
        k, _, v = line.partition("=")
        if k == "bytes":
            data = bytes.fromhex(v)
        else:
            params[k] = v
    return params, data


def write_case(path, params, data, comment=None):
    with open(path, "w") as f:
        f.write("# verif case\n")
        if comment:
            for l in comment.splitlines():
                f.write("# " + l + "\n")
        for k, v in params.items():
            f.write("%s=%s\n" % (k, v))
        f.write("bytes=%s\n" % data.hex())


def same_failure(r, ref):
    return r["v"] in ("viol", "crash") and r["v"] == ref["v"] and r["tag"] == ref["tag"]


def shrink(exe, params, data, ref, workdir, budget_s=60):
    """Hypothesis-style shrinking on the choice sequence(s); each candidate runs in a fresh process.
    A second stream (params['bytes2'], the schedule of engine B) is shrunk first, then the program bytes."""
    if params.get("bytes2"):
        params = dict(params)
        b2 = bytes.fromhex(params["bytes2"])
        def mk2(c):
            pp = dict(params); pp["bytes2"] = c.hex(); return pp, data
        b2 = _shrink_stream(exe, b2, mk2, ref, workdir, budget_s / 2)
        params["bytes2"] = b2.hex()
        small = _shrink_stream(exe, data, lambda c: (params, c), ref, workdir, budget_s / 2)
        return small, params
    return _shrink_stream(exe, data, lambda c: (params, c), ref, workdir, budget_s), params


def _shrink_stream(exe, data, mk, ref, workdir, budget_s):
    t0 = time.time()
    tmpn = [0]

    def test(cand):
        tmpn[0] += 1
        p = os.path.join(workdir, "shr%d_%d.case" % (os.getpid(), tmpn[0] % 64))
        pp, dd = mk(cand)
        write_case(p, pp, dd)
        r = run_case(exe, p, timeout=60)
        return same_failure(r, ref)

    def test_many(cands):
        # evaluate in parallel, return first (in order) that still fails
        if not cands:
            return None
        with cf.ThreadPoolExecutor(min(NCPU, len(cands))) as ex:
            res = list(ex.map(test, cands))
        for c, ok in zip(cands, res):
            if ok:
                return c
        return None

    cur = data
    improved = True
    while improved and time.time() - t0 < budget_s:
        improved = False
        # 1. truncate
        cands = [cur[:n] for n in sorted(set([0, len(cur) // 8, len(cur) // 4, len(cur) // 2, len(cur) * 3 // 4, len(cur) - 8, len(cur) - 2, len(cur) - 1])) if 0 <= n < len(cur)]
        c = test_many(cands)
        if c is not None:
            cur = c; improved = True; continue
        # 2. delete blocks
        for bs in (32, 16, 8, 4, 2, 1):
            if bs > len(cur):
                continue
            cands = [cur[:i] + cur[i + bs:] for i in range(0, len(cur) - bs + 1, max(1, bs // 2))]
            cands = cands[:256]
            c = test_many(cands)
            if c is not None:
                cur = c; improved = True; break
        if improved:
            continue
        # 3. zero blocks / lower bytes
        cands = []
        for bs in (8, 4, 1):
            for i in range(0, len(cur), bs):
                if any(cur[i:i + bs]):
                    cands.append(cur[:i] + bytes(len(cur[i:i + bs])) + cur[i + bs:])
        cands = cands[:256]
        c = test_many(cands)
        if c is not None:
            cur = c; improved = True; continue
        cands = []
        for i, b in enumerate(cur):
            if b > 1:
                for nb in (b // 2, b - 1, b % 16, b % 4):
                    if nb != b:
                        cands.append(cur[:i] + bytes([nb]) + cur[i + 1:])
        cands = cands[:384]
        c = test_many(cands)
        if c is not None:
            cur = c; improved = True; continue
    for f in glob.glob(os.path.join(workdir, "shr%d_*.case" % os.getpid())):
        os.unlink(f)
    return cur


# ---------------------------------------------------------------------------------------------
def load_known():
    p = os.path.join(VERIF, "known_findings.json")
    try:
        return json.load(open(p))["findings"]
    except OSError:
        return []


def match_known(prop, tag, msg):
    for k in load_known():
        if k.get("status") != "known" or k.get("property") != prop:
            continue
        if re.search(k["tag_regex"], tag) and re.search(k.get("detail_regex", ""), msg or ""):
            return k
    return None


def run_batch(exe, seed, total, params, outdir, nworkers=NCPU, label="b"):
    """Run `total` generated cases spread over workers; returns (summary, fails)."""
    os.makedirs(outdir, exist_ok=True)
    procs = []
    per = (total + nworkers - 1) // nworkers
    for w in range(nworkers):
        pre = os.path.join(outdir, "%s_w%d" % (label, w))
        for f in glob.glob(pre + ".*"):
            os.unlink(f)
        cmd = [exe, "batch", str(seed), str(w), str(per), str(nworkers), pre] + list(params)
        procs.append((pre, subprocess.Popen(cmd, stdout=subprocess.PIPE, stderr=subprocess.PIPE, env=env_for(exe))))
    summ = dict(evals=0, ok=0, viol=0, crash=0, inc=0, nt=0, labels=[0] * 64, c=[0] * 16)
    fails = []
    hashes = set()
    samples = []
    broken = []
    for pre, p in procs:
        out, err = p.communicate()
        out = out.decode("utf-8", "replace")
        m = re.search(r"^SUM evals=(\d+) ok=(\d+) viol=(\d+) crash=(\d+) inc=(\d+) nt=(\d+) labels=(\S+) c=(\S+)", out, re.M)
        if not m:
            broken.append((pre, out[-500:], err.decode("utf-8", "replace")[-500:]))
            continue
        for k, i in zip(("evals", "ok", "viol", "crash", "inc"), range(1, 6)):
            summ[k] += int(m.group(i))
        for i, v in enumerate(m.group(7).split(",")):
            summ["labels"][i] += int(v)
        for i, v in enumerate(m.group(8).split(",")):
            summ["c"][i] += int(v)
        for fm in re.finditer(r"^FAIL idx=(\d+) kind=(\w+) tag=(\S+) file=(\S+)", out, re.M):
            fails.append(dict(idx=int(fm.group(1)), kind=fm.group(2), tag=fm.group(3), file=fm.group(4)))
        try:
            hb = open(pre + ".hashes", "rb").read()
            for i in range(0, len(hb), 8):
                hashes.add(hb[i:i + 8])
            os.unlink(pre + ".hashes")
        except OSError:
            pass
        samples += sorted(glob.glob(pre + ".sample*.case"))
    summ["nt"] = len(hashes)
    summ["hashes"] = hashes
    return summ, fails, samples, broken


def run_singles(exe, param_sets, outdir, timeout=3600):
    """Run `exe run <empty case> params...` for every parameter set in parallel (enumerations that are not byte-driven).
    Returns list of result dicts (with verbose log)."""
    os.makedirs(outdir, exist_ok=True)
    empty = os.path.join(outdir, "empty.case")
    write_case(empty, {}, b"")
    def one(ps):
        return run_case(exe, empty, ps, verbose=True, timeout=timeout)
    with cf.ThreadPoolExecutor(NCPU) as ex:
        return list(ex.map(one, param_sets))
