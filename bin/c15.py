"""C15: fault enumeration driver (poll method x EINTR at every k x missing / forbidden optional system calls x exclusion strings)."""
import os, re, sys, time, json, hashlib, shutil, subprocess, random, concurrent.futures as cf
import vlib
from vlib import VERIF

VKS = dict(epoll_create1=0, epoll_create=1, epoll_pwait2=2, timerfd_create=3, ppoll=4, eventfd2=5, eventfd=6, pipe=7, pipe2=8,
           epoll_ctl=9, epoll_wait=10, poll=11, timerfd_settime=12, splice=13)
ENOSYS, EPERM, EINVAL = 38, 1, 22
METHODS = ["epoll-timerfd", "epoll", "ppoll", "poll"]
ALLPROPS = "C01+C02+C03+C04+C06+C07+C09+C15"


def facility_faults(method, nwaits, rnd):
    """(name, faults-param, expected method or None, differential?) for one baseline run"""
    out = []
    ks = sorted(set([0, 1, 2, 5, rnd.randrange(0, max(1, nwaits))]))
    if method in (0, 1):
        out.append(("epoll_create1->ENOSYS", "%d:%d:0:1000000" % (VKS["epoll_create1"], ENOSYS), METHODS[method]))
        out.append(("epoll_create1+epoll_create->ENOSYS (falls through to ppoll)", "%d:%d:0:1000000,%d:%d:0:1000000" % (VKS["epoll_create1"], ENOSYS, VKS["epoll_create"], ENOSYS), "ppoll"))
        for k in ks:
            out.append(("epoll_pwait2->ENOSYS from call %d" % k, "%d:%d:%d:1000000" % (VKS["epoll_pwait2"], ENOSYS, k), None))
            out.append(("epoll_pwait2->EPERM from call %d" % k, "%d:%d:%d:1000000" % (VKS["epoll_pwait2"], EPERM, k), None))
    if method == 0:
        out.append(("timerfd_create->ENOSYS (switch to plain epoll at first use)", "%d:%d:0:1000000" % (VKS["timerfd_create"], ENOSYS), None))
    if method == 2:
        for k in ks:
            out.append(("ppoll->ENOSYS from call %d (switch to poll)" % k, "%d:%d:%d:1000000" % (VKS["ppoll"], ENOSYS, k), None))
    for k in ks[:3]:
        out.append(("eventfd2->EPERM from call %d (creation refused in mid-run: registrations fail, existing objects keep working)" % k, "%d:%d:%d:1000000" % (VKS["eventfd2"], EPERM, k), None))
        out.append(("eventfd2->EMFILE at call %d" % k, "%d:%d:%d:1" % (VKS["eventfd2"], 24, k), None))
    out.append(("eventfd2->EINVAL (old eventfd)", "%d:%d:0:1000000" % (VKS["eventfd2"], EINVAL), None))
    out.append(("eventfd2->ENOSYS (old eventfd)", "%d:%d:0:1000000" % (VKS["eventfd2"], ENOSYS), None))
    out.append(("eventfd2+eventfd->ENOSYS (pipes)", "%d:%d:0:1000000,%d:%d:0:1000000" % (VKS["eventfd2"], ENOSYS, VKS["eventfd"], ENOSYS), None))
    return out


def exclusion_cases(rnd, n):
    out = []
    names = METHODS + ["kqueue", "dev_poll", "bogus", "EPOLL", "epoll-timerf"]
    for _ in range(n):
        k = rnd.randrange(0, 6)
        pick = [rnd.choice(names) for _ in range(k)]
        seps = [rnd.choice([" ", "  ", "\t", " \t "]) for _ in range(k + 1)]
        s = (seps[0] if rnd.random() < 0.3 else "") + "".join(p + sep for p, sep in zip(pick, seps[1:]))
        if rnd.random() < 0.5:
            s = s.rstrip()
        ex = set(pick)
        exp = next((m for m in METHODS if m not in ex), None)
        out.append((s, exp))
    out.append(("epoll-timerfd epoll ppoll poll", None))
    out.append(("poll ppoll epoll epoll-timerfd", None))
    out.append(("", "epoll-timerfd"))
    return out


def run_multi(exe, lines, outdir, tag):
    """lines: list of 'casefile k=v ...'; returns list of parsed results in order"""
    n = vlib.NCPU
    chunks = [lines[i::n] for i in range(n)]
    procs = []
    for i, ch in enumerate(chunks):
        if not ch:
            procs.append(None); continue
        lf = os.path.join(outdir, "%s_%d.list" % (tag, i))
        open(lf, "w").write("\n".join(ch) + "\n")
        procs.append(subprocess.Popen([exe, "multi", lf], stdout=subprocess.PIPE, stderr=subprocess.DEVNULL, env=vlib.ENV_BASE))
    res = [None] * len(lines)
    for i, p in enumerate(procs):
        if p is None:
            continue
        out = p.communicate()[0].decode("utf-8", "replace")
        for m in re.finditer(r"^MRES (\d+) (RES .*)$", out, re.M):
            r = vlib.parse_res(m.group(2))
            res[i + int(m.group(1)) * n] = r
    return res


def run(prop, spec, tier, seed, scale, write_evidence):
    t0 = time.time()
    exe = vlib.build("loop")
    outdir = os.path.join(vlib.BUILD, "run", "C15-%d" % os.getpid())
    os.makedirs(outdir, exist_ok=True)
    rdir = os.path.join(VERIF, "replays", prop); os.makedirs(rdir, exist_ok=True)
    rnd = random.Random(seed)
    nprog = int((200 if tier == "quick" else 2500) * scale) or 1
    max_k = 40 if tier == "quick" else 200
    profiles = ["all", "fd", "timer", "task", "life", "raw"]
    # 1. programs: corpus of C01-C09/C15 + fresh ones
    progs = []
    for p in ("C15", "C01", "C02", "C03", "C04", "C06", "C07", "C09"):
        for f in sorted(__import__("glob").glob(os.path.join(VERIF, "corpus", p, "*.case"))):
            params, data = vlib.read_case(f)
            if params.get("target", "loop") != "loop":
                continue
            progs.append((params.get("profile", "all"), data))
    for i in range(nprog):
        prof = profiles[i % len(profiles)]
        out = subprocess.run([exe, "gen", str(seed * 7919 + 17), str(i), "profile=" + prof], stdout=subprocess.PIPE, env=vlib.ENV_BASE).stdout.decode()
        m = re.search(r"^bytes=([0-9a-f]*)$", out, re.M)
        progs.append((prof, bytes.fromhex(m.group(1))))
    casefiles = []
    for i, (prof, data) in enumerate(progs):
        cfp = os.path.join(outdir, "p%d.case" % i)
        vlib.write_case(cfp, dict(target="loop", profile=prof), data)
        casefiles.append(cfp)
    common = "prop=%s no_eintr=1 pwait2_err=0 eventfd_mode=0 cpu_limit=3 timeout=20" % ALLPROPS
    # 2. baselines per method
    base_lines = []; idx = []
    for i, cfp in enumerate(casefiles):
        for m in range(4):
            base_lines.append("%s %s profile=%s method=%d" % (cfp, common, progs[i][0], m)); idx.append((i, m))
    base = run_multi(exe, base_lines, outdir, "base")
    viols = []; stats = dict(runs=len(base_lines), eintr_runs=0, facility_runs=0, exclusion_runs=0, diff_runs=0, fault_hit=0, diff_compared=0, inconclusive=0)
    triples = set(); samples = []
    def bad(r):
        return r is None or r["v"] in ("viol", "crash")
    plan = []
    for (i, m), r, line in zip(idx, base, base_lines):
        if r is None or r["v"] == "inc":
            stats["inconclusive"] += 1; continue
        if bad(r):
            viols.append((line, r, "baseline")); continue
        nw = r["c"][6]
        ks = list(range(nw)) if nw <= max_k else sorted(rnd.sample(range(nw), max_k))
        for k in ks:
            plan.append((i, m, "eintr", "EINTR at wait call %d (after %s of the wait had passed)" % (k, ["nothing", "1 ms", "40 ms"][k % 3]), "%s eintr_at=%d eintr_adv=%d" % (line, k, [0, 1000000, 40000000][k % 3]), r["hash"]))
        for name, fparam, exp in facility_faults(m, nw, rnd):
            extra = " faults=%s" % fparam + (" expect_method=%s" % exp if exp else "")
            plan.append((i, m, "facility", name, line + extra, None))
    # 2b. differential on the confluent variant of every program: per-object outcome must not depend on interrupted waits
    #     or on fallbacks that keep the timeout granularity
    conf_lines = ["%s %s profile=%s method=%d confluent=1" % (casefiles[i], common, progs[i][0], m) for i in range(len(casefiles)) for m in range(4)]
    conf_idx = [(i, m) for i in range(len(casefiles)) for m in range(4)]
    conf_base = run_multi(exe, conf_lines, outdir, "cbase")
    stats["runs"] += len(conf_lines)
    for (i, m), r, line in zip(conf_idx, conf_base, conf_lines):
        if r is None or r["v"] == "inc":
            stats["inconclusive"] += 1; continue
        if bad(r):
            viols.append((line, r, "confluent baseline")); continue
        nw = r["c"][6]
        ks = list(range(nw)) if nw <= max_k else sorted(rnd.sample(range(nw), max_k))
        for k in ks:
            plan.append((i, m, "diff", "EINTR at wait call %d (confluent program)" % k, "%s eintr_at=%d" % (line, k), (r["c"][7], r["c"][10])))
        same_gran = []     # (the eventfd -> pipe fallback legitimately changes how many posts coalesce into one handler run: not compared)
        if m in (0, 1):
            same_gran.append(("epoll_create1->ENOSYS", "%d:%d:0:1000000" % (VKS["epoll_create1"], ENOSYS)))
        if m == 0:
            same_gran.append(("timerfd_create->ENOSYS", "%d:%d:0:1000000" % (VKS["timerfd_create"], ENOSYS)))
        for name, fparam in same_gran:
            plan.append((i, m, "diff", name + " (confluent program)", "%s faults=%s" % (line, fparam), (r["c"][7], r["c"][10])))
    # 3. exclusion strings (on a few programs)
    for s_, exp in exclusion_cases(rnd, int((40 if tier == "quick" else 400) * scale) + 1):
        i = rnd.randrange(len(casefiles))
        line = "%s %s profile=%s exclude=%s" % (casefiles[i], common, progs[i][0], s_.replace(" ", "\\x20").replace("\t", "\\x09"))
        line += (" expect_method=%s" % exp) if exp else " expect_fatal=1"
        plan.append((i, -1, "exclusion", "IV_EXCLUDE_POLL_METHOD=%r -> %s" % (s_, exp or "iv_fatal"), line, None))
    res = run_multi(exe, [p[4] for p in plan], outdir, "plan")
    for (i, m, kind, name, line, bhash), r in zip(plan, res):
        stats["runs"] += 1
        stats[{"eintr": "eintr_runs", "facility": "facility_runs", "exclusion": "exclusion_runs", "diff": "diff_runs"}[kind]] += 1
        if r is None or r["v"] == "inc":
            stats["inconclusive"] += 1; continue
        if bad(r):
            viols.append((line, r, name)); continue
        hit = bool(r["labels"] >> 44 & 1) or kind == "exclusion"
        if hit:
            stats["fault_hit"] += 1
            triples.add((i, m, name))
            if len(samples) < 6 and (len(samples) < 3 or kind != "eintr"):
                samples.append(dict(program=i, profile=progs[i][0], method=METHODS[m] if m >= 0 else "(by exclusion)", fault=name, result="all oracles held; %d callbacks, %d wait calls" % (r["c"][4], r["c"][6])))
        if kind == "diff" and hit:
            # the environment of a confluent program acts at the loop's blocking points, numbered in order: the two runs can only be
            # compared if they blocked equally often (an interrupted wait after which a timer is due at once removes a blocking point and
            # shifts every later environment action - the program is then a different one)
            bhash, bblocks = bhash
            if r["c"][10] != bblocks:
                stats["diff_misaligned"] = stats.get("diff_misaligned", 0) + 1
                continue
            stats["diff_compared"] += 1
            if r["c"][7] != bhash:
                viols.append((line, dict(v="viol", tag="fault-changed-outcome", msg="per-object callback summary of the confluent program differs from the fault-free run (%s vs %s)" % (r["c"][7], bhash)), name))
    # 3b. the splice / pipe2 fallbacks live in iv_fd_pump: relay sessions with the splice probe failing (read/write mode) and with
    #     splice available, judged by the stream-equality and state oracles of the pump target
    pexe = vlib.build("pump")
    npump = int((8000 if tier == "quick" else 160000) * scale) or 16
    for mode in (1, 0):
        summ, fails, samp, broken = vlib.run_batch(pexe, seed * 1000 + 700 + mode, npump // 2, ["prop=C15+C17", "no_splice=%d" % mode], outdir, label="pump%d" % mode)
        stats["runs"] += summ["evals"]; stats["pump_runs"] = stats.get("pump_runs", 0) + summ["evals"]
        triples.add(("pump", mode, "splice %s" % ("unavailable (probe fails): read/write fallback" if mode else "available")))
        for f in fails[:3]:
            rr = vlib.run_case(pexe, f["file"], ["prop=C15+C17"])
            if rr["v"] in ("viol", "crash"):
                viols.append(("%s prop=C15+C17 no_splice=%d" % (f["file"], mode), rr, "iv_fd_pump relay, splice %s" % ("unavailable" if mode else "available")))
    # 3c. "the same under every available poll method": the guarantees of C01-C09 hold under each of them.  A method-specific slip
    #     (say, only in the kernel-timer path of epoll-timerfd) needs more programs than the enumeration above can afford, so a
    #     plain generated campaign (method drawn per case, generated EINTR/fallback settings) is judged by all loop oracles here
    nloop = int((40000 if tier == "quick" else 800000) * scale) or 16
    for li, (lprof, share) in enumerate((("all", 0.5), ("timer", 0.25), ("fd", 0.25))):
        summ, fails, samp, broken = vlib.run_batch(exe, seed * 1000 + 800 + li, int(nloop * share), ["prop=" + ALLPROPS, "profile=" + lprof], outdir, label="meth%d" % li)
        stats["runs"] += summ["evals"]; stats["method_campaign_runs"] = stats.get("method_campaign_runs", 0) + summ["evals"]
        for m in range(4):
            if summ["labels"][28 + m]:
                triples.add(("campaign", lprof, "method %d" % m))
        for f in fails[:3]:
            rr = vlib.run_case(exe, f["file"], ["prop=" + ALLPROPS, "profile=" + lprof])
            if rr["v"] in ("viol", "crash"):
                viols.append(("%s prop=%s profile=%s" % (f["file"], ALLPROPS, lprof), rr, "generated campaign, poll method drawn per case (profile %s)" % lprof))
    # 4. report
    lines_out = []; nviol = 0; nknown = 0; seen = set()
    for line, r, name in viols:
        tag = r["tag"] if r else "no-result"
        if tag in seen:
            continue
        seen.add(tag)
        toks = line.split(" ")
        params, data = vlib.read_case(toks[0])
        for t in toks[1:]:
            k, _, v = t.partition("=")
            params[k] = v.replace("\\x20", " ").replace("\\x09", "\t")
        params["prop"] = "C15"
        hh = hashlib.sha1((line).encode()).hexdigest()[:10]
        rp = os.path.join(rdir, "%s-%s.case" % (re.sub(r"[^A-Za-z0-9_.@-]", "_", tag)[:50], hh))
        vlib.write_case(rp, params, data, comment="C15 fault enumeration: %s\n%s" % (name, (r or {}).get("msg", "")[:200]))
        k = vlib.match_known(prop, tag, (r or {}).get("msg", ""))
        if k:
            lines_out.append("KNOWN-FINDING: property=%s %s" % (prop, k["what"])); nknown += 1
        else:
            lines_out.append("VIOLATION property=%s replay=%s" % (prop, rp)); lines_out.append("  fault: %s; tag=%s %s" % (name, tag, (r or {}).get("msg", "")[:300])); nviol += 1
    wall = time.time() - t0
    ev = dict(property_id=prop, tier=tier, seed=seed, level="fault_enumeration",
              coverage=dict(evaluations=stats["runs"], distinct_nontrivial=len(triples),
                            rule="programs = regression corpus + seeded generated loop programs of the C01-C09 profiles; for each program and each of the 4 poll methods a fault-free run records the number of wait-primitive calls made inside iv_main; then one run per k with EINTR injected at the k-th wait call (every k up to %d, sampled beyond), one run per optional-facility failure (epoll_create1 / epoll_create ENOSYS, epoll_pwait2 ENOSYS and EPERM from call 0/1/2/5/random, timerfd_create ENOSYS, ppoll ENOSYS from call k, eventfd2 EINVAL/ENOSYS, eventfd ENOSYS), and runs under generated IV_EXCLUDE_POLL_METHOD strings (subsets, orders, odd whitespace, unknown names; oracle = first non-excluded method, iv_fatal when all are excluded); every run is judged by all oracles of C01-C04, C06, C07, C09; iv_fd_pump relay sessions are run with the splice probe failing and succeeding under the C17 oracles; a plain generated campaign of loop programs (poll method, EINTR rate and fallback settings drawn per case) is judged by the same oracles, so that a guarantee broken under one method only is seen; in addition the CONFLUENT variant of every program (each callback acts only on its own object, driven by choices derived from (case, object, invocation number)) is run fault-free, with EINTR at every k, and with the fallbacks that keep the timeout granularity, and the per-object callback summary must be identical whenever the two runs blocked equally often (the environment of a confluent program acts at the loop's blocking points in order; an interrupted wait after which a timer is due at once removes one and makes the rest a different program - such pairs are counted as misaligned, not compared); non-trivial = (program, method, fault) triple in which the fault was actually reached (observed at the system-call boundary)" % max_k,
                            samples=samples, programs=len(progs), exhaustive=False, eintr_k_exhaustive_up_to=max_k, **stats,
                            violations_reported=nviol, known_findings_reported=nknown),
              assumptions=["faults are injected at the libc boundary with errno values the kernel really produces", "EINTR enumeration is exhaustive in k per program up to the stated bound; programs are sampled"],
              wall_s=round(wall, 1), violations=nviol)
    if write_evidence:
        os.makedirs(os.path.join(VERIF, "evidence"), exist_ok=True)
        json.dump(ev, open(os.path.join(VERIF, "evidence", prop + ".json"), "w"), indent=1)
    shutil.rmtree(outdir, ignore_errors=True)
    for l in lines_out:
        print(l)
    print("%s %s: %d runs over %d programs x 4 methods (%d EINTR, %d facility, %d exclusion, %d differential; %d inconclusive), %d fault triples reached, %d violation(s), %d known, %.1fs" %
          (prop, tier, stats["runs"], len(progs), stats["eintr_runs"], stats["facility_runs"], stats["exclusion_runs"], stats["diff_runs"], stats["inconclusive"], len(triples), nviol, nknown, wall))
    if nviol:
        return 1
    if len(triples) < 10 or stats["inconclusive"] > stats["runs"] // 10:
        print("CHECK BROKEN: too few faults reached or too many inconclusive runs"); return 2
    return 0
